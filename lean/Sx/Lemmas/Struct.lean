import Sx.Api
/-
  Structural reasoning about driver programs: `DM.All P x` says that every request `x` can issue,
  from any handle and for any answers of chip and bus, satisfies `P`.
-/
namespace Sx

structure DM.All (P : Req → Prop) (x : DM α) : Prop where
  all : ∀ h, (x h).All P

namespace DM
variable {P : Req → Prop}

theorem All_pure (a : α) : DM.All P (pure a : DM α) := ⟨fun _ => trivial⟩
theorem All_pure' (a : α) : DM.All P (DM.pure' a : DM α) := ⟨fun _ => trivial⟩
theorem All_fail (c : Code) : DM.All P (DM.fail c : DM α) := ⟨fun _ => trivial⟩
theorem All_ub (u : UB) : DM.All P (DM.ub u : DM α) := ⟨fun _ => trivial⟩
theorem All_getH : DM.All P DM.getH := ⟨fun _ => trivial⟩
theorem All_setH (h : Handle) : DM.All P (DM.setH h) := ⟨fun _ => trivial⟩
theorem All_modH (f : Handle → Handle) : DM.All P (DM.modH f) := ⟨fun _ => trivial⟩
theorem All_cb (e : CbEvent) : DM.All P (DM.cb e) := ⟨fun _ _ => trivial⟩
theorem All_sread (reg n : Nat) (h : P (.sread reg n)) : DM.All P (DM.sread reg n) := ⟨fun _ => ⟨h, fun _ => trivial⟩⟩
theorem All_rread (reg : Nat) (h : P (.rread reg)) : DM.All P (DM.rread reg) := ⟨fun _ => ⟨h, fun _ => trivial⟩⟩
theorem All_swrite (reg : Nat) (d : List UInt8) (h : P (.swrite reg d)) : DM.All P (DM.swrite reg d) :=
  ⟨fun _ => ⟨h, fun _ => trivial⟩⟩
theorem All_bwrite (reg : Nat) (d : List UInt8) (h : P (.bwrite reg d)) : DM.All P (DM.bwrite reg d) :=
  ⟨fun _ => ⟨h, fun _ => trivial⟩⟩
theorem All_bread (reg n : Nat) (h : P (.bread reg n)) : DM.All P (DM.bread reg n) := ⟨fun _ => ⟨h, fun _ => trivial⟩⟩
theorem All_rawbread (reg n : Nat) (h : P (.rawbread reg n)) : DM.All P (DM.rawbread reg n) :=
  ⟨fun _ => ⟨h, fun _ => trivial⟩⟩

theorem All_bind {x : DM α} {f : α → DM β} (hx : DM.All P x) (hf : ∀ a, DM.All P (f a)) : DM.All P (x >>= f) := by
  constructor
  intro h
  show ((x h).bind _).All P
  apply Prog.All_bind (hx.all h)
  intro ⟨r, h'⟩
  cases r with
  | ok a => exact (hf a).all h'
  | error c => trivial

theorem All_attempt {x : DM α} (hx : DM.All P x) : DM.All P (DM.attempt x) := by
  constructor
  intro h
  show ((x h).bind _).All P
  apply Prog.All_bind (hx.all h)
  intro ⟨r, h'⟩
  trivial

theorem All_ofExcept (r : Except Code α) : DM.All P (DM.ofExcept r) := by
  cases r <;> exact ⟨fun _ => trivial⟩

theorem All_ite {c : Prop} [Decidable c] {x y : DM α} (hx : DM.All P x) (hy : DM.All P y) :
    DM.All P (if c then x else y) := by split <;> assumption

end DM

/-- one step of the structural traversal of a driver function -/
macro "dm_step" : tactic => `(tactic| first
  | intro _
  | exact DM.All_pure _
  | exact DM.All_pure' _
  | exact DM.All_fail _
  | exact DM.All_ub _
  | exact DM.All_getH
  | exact DM.All_setH _
  | exact DM.All_modH _
  | exact DM.All_cb _
  | apply DM.All_bind
  | apply DM.All_attempt
  | assumption)

end Sx
