import Sx.Lemmas.RxHeader
namespace Sx
open Sx.Model DM

/-- what does not change during a reception -/
structure RxCfg (hdr P : List UInt8) (h : Handle) (g : RxG) : Prop where
  mode : h.opmod = Gen.SX127x_MODE_RX_CONT ∨ h.opmod = Gen.SX127x_MODE_RX_SINGLE
  modem : h.activeModem = Gen.SX127x_MODULATION_FSK ∨ h.activeModem = Gen.SX127x_MODULATION_OOK
  cb : h.rxCb = true
  fits : P.length ≤ h.packet.length
  p16 : P.length < 65536
  hdrOk : HdrOk h.format g hdr P
  crc : h.crcType ≠ Gen.SX127X_CRC_NONE ↔ g.crcOn = true

/-- the header has been read: `received` payload bytes are stored -/
structure PhaseB (hdr P : List UInt8) (h : Handle) (g : RxG) : Prop where
  exp : h.expected.toNat = P.length
  rcv : h.received.toNat ≤ P.length
  stored : h.packet.take h.received.toNat = P.take h.received.toNat
  taken : g.taken = hdr ++ P.take h.received.toNat

/-- progress of the host between invocations: header not yet read, or read with a non-empty payload -/
def RxPhase (hdr P : List UInt8) (h : Handle) (g : RxG) : Prop :=
  (h.expected = 0 ∧ h.received = 0 ∧ g.taken = []) ∨ (PhaseB hdr P h g ∧ h.expected ≠ 0)

theorem RxCfg.of_same {hdr P h h' g g'} (hc : RxCfg hdr P h g) (hs : g.Same g')
    (hm : h'.opmod = h.opmod) (hmo : h'.activeModem = h.activeModem) (hcb : h'.rxCb = h.rxCb) (hp : h'.packet.length = h.packet.length) (hf : h'.format = h.format)
    (hcr : h'.crcType = h.crcType) : RxCfg hdr P h' g' := by
  refine ⟨by rw [hm]; exact hc.mode, by rw [hmo]; exact hc.modem, by rw [hcb]; exact hc.cb, by rw [hp]; exact hc.fits, hc.p16, ?_, ?_⟩
  · have := hc.hdrOk; unfold HdrOk at *; rw [hf, hs.cfg1, hs.cfg2, hs.plen]; exact this
  · rw [hcr]; unfold RxG.crcOn; rw [hs.cfg1]; exact hc.crc

theorem ofNat16 (n : Nat) (h : n < 65536) : (UInt16.ofNat n).toNat = n := by simp [UInt16.toNat_ofNat']; omega

/-- the payload bytes that are still in the FIFO or on the air -/
theorem rest_of_stream {hdr P : List UInt8} {g : RxG} {r : Nat} (hst : g.taken ++ g.fifo ++ g.pending = hdr ++ P)
    (htk : g.taken = hdr ++ P.take r) : g.fifo ++ g.pending = P.drop r := by
  rw [htk, List.append_assoc, List.append_assoc] at hst
  have h1 := List.append_cancel_left hst
  have h2 : P.take r ++ (g.fifo ++ g.pending) = P.take r ++ P.drop r := by rw [List.take_append_drop]; exact h1
  exact List.append_cancel_left h2

theorem hdr_len_le {fmt g hdr P} (h : HdrOk fmt g hdr P) : hdr.length ≤ 2 := by
  rcases h with ⟨_, len, rest, rfl, hr, _⟩ | ⟨_, hl, _⟩
  · rw [List.length_cons, hr]; split <;> omega
  · rw [hl]; split <;> omega

/-- the header step of `read_payload_batch` in either phase: afterwards the length is known -/
theorem header_any (hdr P : List UInt8) (h : Handle) (g : RxG) (hc : RxCfg hdr P h g) (hi : RxGI hdr P g)
    (hph : RxPhase hdr P h g) (hfifo : g.taken = [] → hdr.length ≤ g.fifo.length) :
    DM.gwp rxE readPayloadHeader h g (fun g' r h' =>
      (∃ c, r = .ok (some c) ∧ (c = 0 ∨ c = hdr.length) ∧ PhaseB hdr P h' g' ∧ h' = { h with expected := UInt16.ofNat P.length }
      ∧ RxGI hdr P g' ∧ g.fifo.length ≤ g'.fifo.length + hdr.length ∧ g.Same g'
      ∧ ((g.over = true → g.ready = true) → hdr.length < g.fifo.length → (g'.over = true → g'.ready = true))
      ∧ (c = 0 → g.taken ≠ [] ∨ hdr = []) ∧ (g.over = true → g'.over = true))
      ∨ (∃ c, r = .error c ∧ h' = h ∧ Fwd hdr P g g' ∧ g'.faulted = true)) := by
  rcases hph with ⟨hexp, hrcv, htk⟩ | ⟨hB, hexp⟩
  · refine gwp_mono rxE _ _ _ _ _ ?_ (header_spec hdr P h g hi hexp htk (hfifo htk) hc.hdrOk)
    intro g' r h' hpost
    rcases hpost with ⟨hr, hh, hgi, htk', hlen, hsame, hkept, hover⟩ | hfail
    case inr => exact Or.inr hfail
    refine Or.inl ⟨hdr.length, hr, Or.inr rfl, ?_, hh, hgi, hlen, hsame, hkept, ?_, hover⟩
    · subst hh
      refine ⟨ofNat16 _ hc.p16, ?_, ?_, ?_⟩
      · show h.received.toNat ≤ _; rw [hrcv]; exact Nat.zero_le _
      · show h.packet.take h.received.toNat = _; rw [hrcv]; simp
      · show g'.taken = hdr ++ P.take h.received.toNat; rw [hrcv, htk']; simp
    · intro h0
      right; exact List.eq_nil_of_length_eq_zero h0
  · unfold readPayloadHeader
    rw [gwp_bind, gwp_getH]
    dsimp only
    rw [if_pos hexp, gwp_pure]
    have hh : h = { h with expected := UInt16.ofNat P.length } := by
      have : h.expected = UInt16.ofNat P.length := by
        apply UInt16.toNat_inj.mp; rw [hB.exp, ofNat16 _ hc.p16]
      rw [← this]
    refine Or.inl ⟨0, rfl, Or.inl rfl, ?_, hh, hi, Nat.le_add_right _ _, ?_, fun hk _ => hk, ?_, id⟩
    · exact hB
    · exact RxG.Same.refl g
    · intro _
      by_cases hhd : hdr = []
      · right; exact hhd
      · left; rw [hB.taken]; intro hn; exact hhd (List.append_eq_nil_iff.mp hn).1
/-- PayloadReady has not been lost -/
def RxG.Kept (g : RxG) : Prop := g.over = true → g.ready = true

/-- everything about a reception that holds between two handler invocations -/
structure RxInv (hdr P : List UInt8) (h : Handle) (g : RxG) : Prop where
  cfg : RxCfg hdr P h g
  gi : RxGI hdr P g
  phase : RxPhase hdr P h g
  kept : g.Kept

/-- arrivals (and failed transfers) keep everything -/
theorem RxInv.fwd {hdr P h g g'} (hv : RxInv hdr P h g) (hf : Fwd hdr P g g') : RxInv hdr P h g' := by
  refine ⟨hv.cfg.of_same hf.same rfl rfl rfl rfl rfl rfl, hf.gi, ?_, hf.kept hv.kept⟩
  rcases hv.phase with ⟨a, b, c⟩ | ⟨⟨a, b, c, d⟩, e⟩
  · exact Or.inl ⟨a, b, hf.taken.trans c⟩
  · exact Or.inr ⟨⟨a, b, c, hf.taken.trans d⟩, e⟩

theorem RxGI.irq {hdr P g} (hi : RxGI hdr P g) (v : UInt8) : RxGI hdr P { g with irq := v } :=
  ⟨⟨hi.wf.overPending, hi.wf.readyOver, hi.wf.crc, hi.wf.crcReady, hi.wf.room⟩, hi.live, hi.stream⟩

theorem RxPhase.of_eq {hdr P h h' g g'} (hp : RxPhase hdr P h g) (he : h'.expected = h.expected) (hr : h'.received = h.received)
    (hpk : h'.packet = h.packet) (ht : g'.taken = g.taken) : RxPhase hdr P h' g' := by
  rcases hp with ⟨a, b, c⟩ | ⟨⟨a, b, c, d⟩, e⟩
  · exact Or.inl ⟨he.trans a, hr.trans b, ht.trans c⟩
  · exact Or.inr ⟨⟨by rw [he]; exact a, by rw [hr]; exact b, by rw [hr, hpk]; exact c, by rw [hr, ht]; exact d⟩, by rw [he]; exact e⟩

theorem RxInv.adv {hdr P h g g1} (hv : RxInv hdr P h g) (ha : g.Adv g1) :
    RxInv hdr P h g1 ∧ g.Same g1 ∧ g.fifo.length ≤ g1.fifo.length ∧ (g.over = true → g1.over = true) := by
  obtain ⟨hi1, hs, hl, hk, htk, hov⟩ := hv.gi.adv ha
  exact ⟨⟨hv.cfg.of_same hs rfl rfl rfl rfl rfl rfl, hi1, hv.phase.of_eq rfl rfl rfl htk, hk hv.kept⟩, hs, hl, hov⟩

theorem RxInv.advF {hdr P h g g1} (hv : RxInv hdr P h g) (ha : g.AdvF g1) :
    RxInv hdr P h g1 ∧ g.Same g1 ∧ g1.faulted = true := by
  obtain ⟨hf, hfl⟩ := (Fwd.refl hv.gi).stepF ha
  exact ⟨hv.fwd hf, hf.same, hfl⟩

theorem RxInv.handle {hdr P h h' g} (hv : RxInv hdr P h g) (hm : h'.opmod = h.opmod) (hmo : h'.activeModem = h.activeModem) (hcb : h'.rxCb = h.rxCb)
    (hpk : h'.packet = h.packet) (hf : h'.format = h.format) (hcr : h'.crcType = h.crcType)
    (he : h'.expected = h.expected) (hr : h'.received = h.received) : RxInv hdr P h' g :=
  ⟨hv.cfg.of_same (RxG.Same.refl g) hm hmo hcb (by rw [hpk]) hf hcr, hv.gi, hv.phase.of_eq he hr hpk rfl, hv.kept⟩


theorem take_chunk {P : List UInt8} {f p : List UInt8} {r n : Nat} (hst : f ++ p = P.drop r) (hn : n ≤ f.length) :
    f.take n = (P.drop r).take n := by
  rw [← hst, List.take_append_of_le_length hn]

/-- `read_payload_batch(true)`: the FIFO-level path -/
theorem batch_level (fuel : Nat) (hdr P : List UInt8) (h : Handle) (g : RxG) (hv : RxInv hdr P h g)
    (hlv : 31 < g.fifo.length) :
    DM.gwp rxE (fskOokReadPayloadBatch fuel true) h g (fun g' _ h' =>
      RxInv hdr P h' g' ∧ g'.cbs = g.cbs ∧ h'.rssiAvail = h.rssiAvail ∧ g.Same g') := by
  obtain ⟨hc, hi, hph, hk⟩ := hv
  unfold fskOokReadPayloadBatch
  rw [gwp_bind]
  have hl2 := hdr_len_le hc.hdrOk
  refine gwp_mono rxE _ _ _ _ _ ?_ (header_any hdr P h g hc hi hph (fun _ => by omega))
  intro g1 r1 h1 hpost1
  rcases hpost1 with ⟨c, hr1, _, hB, hh1, hi1, hlen1, hs1, hk1, _, _⟩ | ⟨c, hre, hhe, hfe, _⟩
  case inr =>
    subst hre hhe
    exact ⟨RxInv.fwd ⟨hc, hi, hph, hk⟩ hfe, hfe.same.cbs, rfl, hfe.same⟩
  subst hr1
  dsimp only
  rw [gwp_bind, gwp_getH]
  dsimp only
  have hk1' : g1.Kept := hk1 hk (by omega)
  have hrest := rest_of_stream hi1.stream hB.taken
  have hlen30 : 30 ≤ g1.fifo.length := by omega
  have hPlen : h1.received.toNat + 30 ≤ P.length := by
    have := congrArg List.length hrest
    simp only [List.length_append, List.length_drop] at this
    omega
  have hne : ¬h1.expected = h1.received := by
    intro he; have := congrArg UInt16.toNat he; rw [hB.exp] at this; omega
  rw [if_neg hne, if_neg (by rw [hB.exp]; have := hc.fits; subst hh1; exact Nat.not_lt.mpr this)]
  simp only [if_true]
  have hcfg1 : RxCfg hdr P h1 g1 := by subst hh1; exact hc.of_same hs1 rfl rfl rfl rfl rfl rfl
  by_cases hb : h1.received.toNat + (Gen.HALF_MAX_FIFO_THRESHOLD - 1) < h1.expected.toNat
  · rw [if_pos hb]
    have hb' : h1.received.toNat + 30 < P.length := by rw [hB.exp] at hb; exact hb
    have hcap : h1.received.toNat + (Gen.HALF_MAX_FIFO_THRESHOLD - 1) ≤ h1.packet.length := by
      have := hcfg1.fits; show h1.received.toNat + 30 ≤ _; omega
    rw [if_pos hcap, gwp_bind, gwp_bread]
    intro r2 g2 hr2
    have hv1 : RxInv hdr P h1 g1 := ⟨hcfg1, hi1, Or.inr ⟨hB, by
      intro h0
      have h00 : h1.expected.toNat = 0 := congrArg UInt16.toNat h0
      rw [hB.exp] at h00; omega⟩, hk1'⟩
    rcases rx_bread hi1.live _ r2 g2 hr2 with ⟨ce, hre, hae⟩ | ⟨d, g1', hr2v, ha2, hg2, hdl, hdv⟩
    case inl =>
      subst hre
      obtain ⟨hve, hse, _⟩ := hv1.advF hae
      exact ⟨hve, (hs1.trans hse).cbs, by subst hh1; rfl, hs1.trans hse⟩
    subst hr2v hg2
    have hdl' : d.length = 30 := hdl
    obtain ⟨hi1', hs1', hlen1', hk1'', htk1', _⟩ := hi1.adv ha2
    have hn30 : 30 ≤ g1'.fifo.length := by omega
    have hrest' : g1'.fifo ++ g1'.pending = P.drop h1.received.toNat :=
      rest_of_stream hi1'.stream (htk1'.trans hB.taken)
    have hdv' : d = (P.drop h1.received.toNat).take 30 := by
      rw [hdv hn30]; exact take_chunk hrest' hn30
    obtain ⟨hw2, hs2, htk2, hfifo2, hpend2, hover2, hrdy2, _⟩ := RxG.take_facts g1' 30 hn30 hi1'.wf
    dsimp only
    unfold packetCopy
    rw [gwp_bind, gwp_bind, gwp_getH]
    dsimp only
    rw [if_pos (by rw [hdl']; exact hcap), gwp_setH]
    dsimp only
    rw [gwp_modH]
    have hsum : (h1.received + UInt16.ofNat (Gen.HALF_MAX_FIFO_THRESHOLD - 1)).toNat = h1.received.toNat + 30 := by
      rw [UInt16.toNat_add]
      have : (UInt16.ofNat (Gen.HALF_MAX_FIFO_THRESHOLD - 1)).toNat = 30 := rfl
      rw [this]; have := hc.p16; omega
    have hsame02 : g.Same (g1'.take (Gen.HALF_MAX_FIFO_THRESHOLD - 1)) := (hs1.trans hs1').trans hs2
    refine ⟨⟨?_, ⟨hw2, hsame02.live hi.live, ?_⟩, Or.inr ⟨⟨?_, ?_, ?_, ?_⟩, ?_⟩, ?_⟩, hsame02.cbs, by subst hh1; rfl, hsame02⟩
    · subst hh1; exact hc.of_same hsame02 rfl rfl rfl (by simp) rfl rfl
    · -- stream
      show (g1'.take 30).taken ++ (g1'.take 30).fifo ++ (g1'.take 30).pending = hdr ++ P
      rw [htk2, hfifo2, hpend2, List.append_assoc, List.append_assoc, ← List.append_assoc (List.take 30 g1'.fifo),
        List.take_append_drop, ← List.append_assoc]
      exact hi1'.stream
    · exact hB.exp
    · show (h1.received + UInt16.ofNat (Gen.HALF_MAX_FIFO_THRESHOLD - 1)).toNat ≤ _; rw [hsum]; omega
    · show (h1.packet.wrs h1.received.toNat d).take (h1.received + UInt16.ofNat (Gen.HALF_MAX_FIFO_THRESHOLD - 1)).toNat = _
      rw [hsum, ← hdl', take_wrs _ _ _ (by rw [hdl']; exact hcap), hB.stored, hdl', hdv', ← List.take_add]
    · show (g1'.take 30).taken = hdr ++ P.take (h1.received + UInt16.ofNat (Gen.HALF_MAX_FIFO_THRESHOLD - 1)).toNat
      rw [htk2, htk1', hB.taken, hsum, take_chunk hrest' hn30, List.append_assoc, ← List.take_add]
    · intro h0
      have h00 : h1.expected.toNat = 0 := congrArg UInt16.toNat h0
      rw [hB.exp] at h00; omega
    · -- PayloadReady kept: at least one byte of the packet stays behind
      intro ho
      have ho' : g1'.over = true := by rw [← hover2]; exact ho
      have hpend : g1'.pending = [] := hi1'.wf.overPending ho'
      have hne' : g1'.fifo.drop 30 ≠ [] := by
        intro he
        have h1l := congrArg List.length hrest'
        rw [hpend, List.append_nil, List.length_drop] at h1l
        have h2l := congrArg List.length he
        rw [List.length_drop] at h2l; simp at h2l; omega
      show (g1'.take 30).ready = true
      rw [(hrdy2 hne').1]
      exact hk1'' hk1' ho'
  · rw [if_neg hb, gwp_pure]
    refine ⟨⟨hcfg1, hi1, Or.inr ⟨hB, ?_⟩, hk1'⟩, hs1.cbs, by subst hh1; rfl, hs1⟩
    intro h0
    have h00 : h1.expected.toNat = 0 := congrArg UInt16.toNat h0
    rw [hB.exp] at h00; omega
end Sx
