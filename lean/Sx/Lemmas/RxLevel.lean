import Sx.Lemmas.RxHeader
namespace Sx
open Sx.Model DM

/-- what does not change during a reception -/
structure RxCfg (hdr P : List UInt8) (h : Handle) (g : RxG) : Prop where
  mode : h.opmod = Gen.SX127x_MODE_RX_CONT ∨ h.opmod = Gen.SX127x_MODE_RX_SINGLE
  cb : h.rxCb = true
  fits : P.length ≤ h.packet.length
  p16 : P.length < 65536
  hdrOk : HdrOk h.format g hdr P
  crc : h.crcType ≠ Gen.SX127X_CRC_NONE ↔ g.crcOn = true

/-- the header has been read: `received` payload bytes are stored -/
structure PhaseB (hdr P : List UInt8) (h : Handle) (g : RxG) : Prop where
  exp : h.expected.toNat = P.length
  rcv : h.received.toNat ≤ P.length
  stored : h.packet.take h.received.toNat = P.take h.received.toNat
  taken : g.taken = hdr ++ P.take h.received.toNat

/-- progress of the host between invocations: header not yet read, or read with a non-empty payload -/
def RxPhase (hdr P : List UInt8) (h : Handle) (g : RxG) : Prop :=
  (h.expected = 0 ∧ h.received = 0 ∧ g.taken = []) ∨ (PhaseB hdr P h g ∧ h.expected ≠ 0)

theorem RxCfg.of_same {hdr P h h' g g'} (hc : RxCfg hdr P h g) (hs : g.Same g')
    (hm : h'.opmod = h.opmod) (hcb : h'.rxCb = h.rxCb) (hp : h'.packet.length = h.packet.length) (hf : h'.format = h.format)
    (hcr : h'.crcType = h.crcType) : RxCfg hdr P h' g' := by
  refine ⟨by rw [hm]; exact hc.mode, by rw [hcb]; exact hc.cb, by rw [hp]; exact hc.fits, hc.p16, ?_, ?_⟩
  · have := hc.hdrOk; unfold HdrOk at *; rw [hf, hs.cfg1, hs.cfg2, hs.plen]; exact this
  · rw [hcr]; unfold RxG.crcOn; rw [hs.cfg1]; exact hc.crc

theorem ofNat16 (n : Nat) (h : n < 65536) : (UInt16.ofNat n).toNat = n := by simp [UInt16.toNat_ofNat']; omega

/-- the payload bytes that are still in the FIFO or on the air -/
theorem rest_of_stream {hdr P : List UInt8} {g : RxG} {r : Nat} (hst : g.taken ++ g.fifo ++ g.pending = hdr ++ P)
    (htk : g.taken = hdr ++ P.take r) : g.fifo ++ g.pending = P.drop r := by
  rw [htk, List.append_assoc, List.append_assoc] at hst
  have h1 := List.append_cancel_left hst
  have h2 : P.take r ++ (g.fifo ++ g.pending) = P.take r ++ P.drop r := by rw [List.take_append_drop]; exact h1
  exact List.append_cancel_left h2

theorem hdr_len_le {fmt g hdr P} (h : HdrOk fmt g hdr P) : hdr.length ≤ 2 := by
  rcases h with ⟨_, len, rest, rfl, hr, _⟩ | ⟨_, hl, _⟩
  · rw [List.length_cons, hr]; split <;> omega
  · rw [hl]; split <;> omega

/-- the header step of `read_payload_batch` in either phase: afterwards the length is known -/
theorem header_any (hdr P : List UInt8) (h : Handle) (g : RxG) (hc : RxCfg hdr P h g) (hi : RxGI hdr P g)
    (hph : RxPhase hdr P h g) (hfifo : g.taken = [] → hdr.length ≤ g.fifo.length) :
    DM.gwp rxE readPayloadHeader h g (fun g' r h' =>
      ∃ c, r = .ok (some c) ∧ (c = 0 ∨ c = hdr.length) ∧ PhaseB hdr P h' g' ∧ h' = { h with expected := UInt16.ofNat P.length }
      ∧ RxGI hdr P g' ∧ g.fifo.length ≤ g'.fifo.length + hdr.length ∧ g.Same g'
      ∧ ((g.over = true → g.ready = true) → hdr.length < g.fifo.length → (g'.over = true → g'.ready = true))
      ∧ (c = 0 → g.taken ≠ [] ∨ hdr = []) ∧ (g.over = true → g'.over = true)) := by
  rcases hph with ⟨hexp, hrcv, htk⟩ | ⟨hB, hexp⟩
  · refine gwp_mono rxE _ _ _ _ _ ?_ (header_spec hdr P h g hi hexp htk (hfifo htk) hc.hdrOk)
    intro g' r h' ⟨hr, hh, hgi, htk', hlen, hsame, hkept, hover⟩
    refine ⟨hdr.length, hr, Or.inr rfl, ?_, hh, hgi, hlen, hsame, hkept, ?_, hover⟩
    · subst hh
      refine ⟨ofNat16 _ hc.p16, ?_, ?_, ?_⟩
      · show h.received.toNat ≤ _; rw [hrcv]; exact Nat.zero_le _
      · show h.packet.take h.received.toNat = _; rw [hrcv]; simp
      · show g'.taken = hdr ++ P.take h.received.toNat; rw [hrcv, htk']; simp
    · intro h0
      right; exact List.eq_nil_of_length_eq_zero h0
  · unfold readPayloadHeader
    rw [gwp_bind, gwp_getH]
    dsimp only
    rw [if_pos hexp, gwp_pure]
    have hh : h = { h with expected := UInt16.ofNat P.length } := by
      have : h.expected = UInt16.ofNat P.length := by
        apply UInt16.toNat_inj.mp; rw [hB.exp, ofNat16 _ hc.p16]
      rw [← this]
    refine ⟨0, rfl, Or.inl rfl, ?_, hh, hi, Nat.le_add_right _ _, ?_, fun hk _ => hk, ?_, id⟩
    · exact hB
    · exact RxG.Same.refl g
    · intro _
      by_cases hhd : hdr = []
      · right; exact hhd
      · left; rw [hB.taken]; intro hn; exact hhd (List.append_eq_nil_iff.mp hn).1
/-- PayloadReady has not been lost -/
def RxG.Kept (g : RxG) : Prop := g.over = true → g.ready = true

/-- everything about a reception that holds between two handler invocations -/
structure RxInv (hdr P : List UInt8) (h : Handle) (g : RxG) : Prop where
  cfg : RxCfg hdr P h g
  gi : RxGI hdr P g
  phase : RxPhase hdr P h g
  kept : g.Kept

theorem take_chunk {P : List UInt8} {f p : List UInt8} {r n : Nat} (hst : f ++ p = P.drop r) (hn : n ≤ f.length) :
    f.take n = (P.drop r).take n := by
  rw [← hst, List.take_append_of_le_length hn]

/-- `read_payload_batch(true)`: the FIFO-level path -/
theorem batch_level (fuel : Nat) (hdr P : List UInt8) (h : Handle) (g : RxG) (hv : RxInv hdr P h g)
    (hlv : 31 < g.fifo.length) :
    DM.gwp rxE (fskOokReadPayloadBatch fuel true) h g (fun g' _ h' =>
      RxInv hdr P h' g' ∧ g'.cbs = g.cbs ∧ h'.rssiAvail = h.rssiAvail ∧ g.Same g') := by
  obtain ⟨hc, hi, hph, hk⟩ := hv
  unfold fskOokReadPayloadBatch
  rw [gwp_bind]
  have hl2 := hdr_len_le hc.hdrOk
  refine gwp_mono rxE _ _ _ _ _ ?_ (header_any hdr P h g hc hi hph (fun _ => by omega))
  intro g1 r1 h1 ⟨c, hr1, _, hB, hh1, hi1, hlen1, hs1, hk1, _, _⟩
  subst hr1
  dsimp only
  rw [gwp_bind, gwp_getH]
  dsimp only
  have hk1' : g1.Kept := hk1 hk (by omega)
  have hrest := rest_of_stream hi1.stream hB.taken
  have hlen30 : 30 ≤ g1.fifo.length := by omega
  have hPlen : h1.received.toNat + 30 ≤ P.length := by
    have := congrArg List.length hrest
    simp only [List.length_append, List.length_drop] at this
    omega
  have hne : ¬h1.expected = h1.received := by
    intro he; have := congrArg UInt16.toNat he; rw [hB.exp] at this; omega
  rw [if_neg hne, if_neg (by rw [hB.exp]; have := hc.fits; subst hh1; exact Nat.not_lt.mpr this)]
  simp only [if_true]
  have hcfg1 : RxCfg hdr P h1 g1 := by subst hh1; exact hc.of_same hs1 rfl rfl rfl rfl rfl
  by_cases hb : h1.received.toNat + (Gen.HALF_MAX_FIFO_THRESHOLD - 1) < h1.expected.toNat
  · rw [if_pos hb]
    have hb' : h1.received.toNat + 30 < P.length := by rw [hB.exp] at hb; exact hb
    have hcap : h1.received.toNat + (Gen.HALF_MAX_FIFO_THRESHOLD - 1) ≤ h1.packet.length := by
      have := hcfg1.fits; show h1.received.toNat + 30 ≤ _; omega
    rw [if_pos hcap, gwp_bind, gwp_bread]
    intro r2 g2 hr2
    obtain ⟨d, g1', hr2v, ha2, hg2, hdl, hdv⟩ := rx_bread hi1.live _ r2 g2 hr2
    subst hr2v hg2
    have hdl' : d.length = 30 := hdl
    obtain ⟨hi1', hs1', hlen1', hk1'', htk1', _⟩ := hi1.adv ha2
    have hn30 : 30 ≤ g1'.fifo.length := by omega
    have hrest' : g1'.fifo ++ g1'.pending = P.drop h1.received.toNat :=
      rest_of_stream hi1'.stream (htk1'.trans hB.taken)
    have hdv' : d = (P.drop h1.received.toNat).take 30 := by
      rw [hdv hn30]; exact take_chunk hrest' hn30
    obtain ⟨hw2, hs2, htk2, hfifo2, hpend2, hover2, hrdy2, _⟩ := RxG.take_facts g1' 30 hn30 hi1'.wf
    dsimp only
    unfold packetCopy
    rw [gwp_bind, gwp_bind, gwp_getH]
    dsimp only
    rw [if_pos (by rw [hdl']; exact hcap), gwp_setH]
    dsimp only
    rw [gwp_modH]
    have hsum : (h1.received + UInt16.ofNat (Gen.HALF_MAX_FIFO_THRESHOLD - 1)).toNat = h1.received.toNat + 30 := by
      rw [UInt16.toNat_add]
      have : (UInt16.ofNat (Gen.HALF_MAX_FIFO_THRESHOLD - 1)).toNat = 30 := rfl
      rw [this]; have := hc.p16; omega
    have hsame02 : g.Same (g1'.take (Gen.HALF_MAX_FIFO_THRESHOLD - 1)) := (hs1.trans hs1').trans hs2
    refine ⟨⟨?_, ⟨hw2, hsame02.live hi.live, ?_⟩, Or.inr ⟨⟨?_, ?_, ?_, ?_⟩, ?_⟩, ?_⟩, hsame02.cbs, by subst hh1; rfl, hsame02⟩
    · subst hh1; exact hc.of_same hsame02 rfl rfl (by simp) rfl rfl
    · -- stream
      show (g1'.take 30).taken ++ (g1'.take 30).fifo ++ (g1'.take 30).pending = hdr ++ P
      rw [htk2, hfifo2, hpend2, List.append_assoc, List.append_assoc, ← List.append_assoc (List.take 30 g1'.fifo),
        List.take_append_drop, ← List.append_assoc]
      exact hi1'.stream
    · exact hB.exp
    · show (h1.received + UInt16.ofNat (Gen.HALF_MAX_FIFO_THRESHOLD - 1)).toNat ≤ _; rw [hsum]; omega
    · show (h1.packet.wrs h1.received.toNat d).take (h1.received + UInt16.ofNat (Gen.HALF_MAX_FIFO_THRESHOLD - 1)).toNat = _
      rw [hsum, ← hdl', take_wrs _ _ _ (by rw [hdl']; exact hcap), hB.stored, hdl', hdv', ← List.take_add]
    · show (g1'.take 30).taken = hdr ++ P.take (h1.received + UInt16.ofNat (Gen.HALF_MAX_FIFO_THRESHOLD - 1)).toNat
      rw [htk2, htk1', hB.taken, hsum, take_chunk hrest' hn30, List.append_assoc, ← List.take_add]
    · intro h0
      have h00 : h1.expected.toNat = 0 := congrArg UInt16.toNat h0
      rw [hB.exp] at h00; omega
    · -- PayloadReady kept: at least one byte of the packet stays behind
      intro ho
      have ho' : g1'.over = true := by rw [← hover2]; exact ho
      have hpend : g1'.pending = [] := hi1'.wf.overPending ho'
      have hne' : g1'.fifo.drop 30 ≠ [] := by
        intro he
        have h1l := congrArg List.length hrest'
        rw [hpend, List.append_nil, List.length_drop] at h1l
        have h2l := congrArg List.length he
        rw [List.length_drop] at h2l; simp at h2l; omega
      show (g1'.take 30).ready = true
      rw [(hrdy2 hne').1]
      exact hk1'' hk1' ho'
  · rw [if_neg hb, gwp_pure]
    refine ⟨⟨hcfg1, hi1, Or.inr ⟨hB, ?_⟩, hk1'⟩, hs1.cbs, by subst hh1; rfl, hs1⟩
    intro h0
    have h00 : h1.expected.toNat = 0 := congrArg UInt16.toNat h0
    rw [hB.exp] at h00; omega
end Sx
