import Sx.Lemmas.RxFifo
namespace Sx
open Sx.Model DM

namespace RxG
/-- facts the environment maintains by itself -/
structure Wf (g : RxG) : Prop where
  overPending : g.over = true → g.pending = []
  readyOver : g.ready = true → g.over = true
  crc : g.ready = true → g.crcFlag = (g.crcOn && g.crcGood)
  crcReady : g.crcFlag = true → g.ready = true
  room : g.fifo.length ≤ 63

/-- `g1` is `g` after the demodulator has pushed some bytes -/
def Adv (g g1 : RxG) : Prop := ∃ k fin, g.Adm k ∧ g1 = g.arrive k fin

structure Same (g g1 : RxG) : Prop where
  cfg1 : g1.cfg1 = g.cfg1
  cfg2 : g1.cfg2 = g.cfg2
  plen : g1.plen = g.plen
  crcGood : g1.crcGood = g.crcGood
  cbs : g1.cbs = g.cbs
  ended : g1.ended = g.ended
  poison : g1.poison = g.poison

theorem Adv.facts {g g1 : RxG} (ha : g.Adv g1) (hw : g.Wf) :
    g1.Wf ∧ g.Same g1 ∧ g1.fifo ++ g1.pending = g.fifo ++ g.pending ∧ g.fifo.length ≤ g1.fifo.length ∧
    (g.over = true → g1.over = true ∧ g1.ready = g.ready ∧ g1.crcFlag = g.crcFlag ∧ g1.fifo = g.fifo) ∧
    ((g.over = true → g.ready = true) → (g1.over = true → g1.ready = true)) ∧ g1.irq = g.irq ∧ g1.taken = g.taken := by
  obtain ⟨k, fin, ⟨hk, hroom⟩, rfl⟩ := ha
  unfold arrive
  dsimp only
  have hstream : (g.fifo ++ g.pending.take k) ++ g.pending.drop k = g.fifo ++ g.pending := by
    rw [List.append_assoc, List.take_append_drop]
  have hlen : (g.fifo ++ g.pending.take k).length = g.fifo.length + k := by
    simp [List.length_take]; omega
  split
  · rename_i hc
    obtain ⟨_, hpend, hov⟩ := hc
    refine ⟨⟨fun _ => hpend, fun _ => rfl, fun _ => rfl, fun _ => rfl, by show (g.fifo ++ g.pending.take k).length ≤ 63; omega⟩,
      ⟨rfl, rfl, rfl, rfl, rfl, rfl, rfl⟩, hstream, by show g.fifo.length ≤ (g.fifo ++ g.pending.take k).length; omega, ?_, fun _ _ => rfl, rfl, rfl⟩
    intro ho; rw [ho] at hov; cases hov
  · refine ⟨⟨?_, hw.readyOver, hw.crc, hw.crcReady, by show (g.fifo ++ g.pending.take k).length ≤ 63; omega⟩,
      ⟨rfl, rfl, rfl, rfl, rfl, rfl, rfl⟩, hstream, by show g.fifo.length ≤ (g.fifo ++ g.pending.take k).length; omega, ?_, id, rfl, rfl⟩
    · intro ho
      show g.pending.drop k = []
      rw [hw.overPending ho]; simp
    · intro ho
      refine ⟨ho, rfl, rfl, ?_⟩
      show g.fifo ++ g.pending.take k = g.fifo
      rw [hw.overPending ho]; simp


theorem Adv.faulted {g g1 : RxG} (ha : g.Adv g1) : g1.faulted = g.faulted := by
  obtain ⟨k, fin, _, rfl⟩ := ha
  unfold arrive
  dsimp only
  split <;> rfl

theorem take_facts (g : RxG) (n : Nat) (hn : n ≤ g.fifo.length) (hw : g.Wf) :
    (g.take n).Wf ∧ g.Same (g.take n) ∧ (g.take n).taken = g.taken ++ g.fifo.take n ∧
    (g.take n).fifo = g.fifo.drop n ∧ (g.take n).pending = g.pending ∧ (g.take n).over = g.over ∧
    (g.fifo.drop n ≠ [] → (g.take n).ready = g.ready ∧ (g.take n).crcFlag = g.crcFlag) ∧ (g.take n).irq = g.irq := by
  unfold take
  by_cases h0 : n = 0
  · subst h0
    rw [if_pos rfl]
    exact ⟨hw, ⟨rfl, rfl, rfl, rfl, rfl, rfl, rfl⟩, by simp, rfl, rfl, rfl, fun _ => ⟨rfl, rfl⟩, rfl⟩
  rw [if_neg h0, if_pos hn]
  dsimp only
  have hroom : (g.fifo.drop n).length ≤ 63 := by have := hw.room; simp; omega
  split
  · rename_i he
    exact ⟨⟨hw.overPending, fun h => absurd h Bool.false_ne_true, fun h => absurd h Bool.false_ne_true, fun h => absurd h Bool.false_ne_true, hroom⟩,
      ⟨rfl, rfl, rfl, rfl, rfl, rfl, rfl⟩, rfl, rfl, rfl, rfl, fun hne => absurd he hne, rfl⟩
  · exact ⟨⟨hw.overPending, hw.readyOver, hw.crc, hw.crcReady, hroom⟩,
      ⟨rfl, rfl, rfl, rfl, rfl, rfl, rfl⟩, rfl, rfl, rfl, rfl, fun _ => ⟨rfl, rfl⟩, rfl⟩

theorem flush_facts (g : RxG) (hw : g.Wf) :
    g.flush.Wf ∧ g.Same g.flush ∧ g.flush.fifo = [] ∧ g.flush.ready = false ∧ g.flush.pending = g.pending ∧ g.flush.taken = g.taken := by
  exact ⟨⟨hw.overPending, fun h => absurd h Bool.false_ne_true, fun h => absurd h Bool.false_ne_true, fun h => absurd h Bool.false_ne_true, by show ([] : List UInt8).length ≤ 63; simp⟩,
    ⟨rfl, rfl, rfl, rfl, rfl, rfl, rfl⟩, rfl, rfl, rfl, rfl⟩

theorem Same.refl (g : RxG) : g.Same g := ⟨rfl, rfl, rfl, rfl, rfl, rfl, rfl⟩
theorem Same.trans {a b c : RxG} (h1 : a.Same b) (h2 : b.Same c) : a.Same c :=
  ⟨h2.cfg1.trans h1.cfg1, h2.cfg2.trans h1.cfg2, h2.plen.trans h1.plen,
   h2.crcGood.trans h1.crcGood, h2.cbs.trans h1.cbs, h2.ended.trans h1.ended, h2.poison.trans h1.poison⟩
theorem Same.live {g g1 : RxG} (h : g.Same g1) (hl : g.live) : g1.live := ⟨h.poison.trans hl.1, h.ended.trans hl.2⟩
end RxG

/-- `g'` is `g` after arrivals and a failed transfer -/
def RxG.AdvF (g g' : RxG) : Prop := ∃ g1, g.Adv g1 ∧ g' = { g1 with faulted := true }

theorem rxR_live {g : RxG} (hl : g.live) (q a g') : rxE.R g q a g' ↔
    ((a.noErr ∧ rxRLive g q a g') ∨ (¬a.noErr ∧ ¬FlushReq q ∧ g.AdvF g')) := by
  show rxR g q a g' ↔ _
  unfold rxR
  rw [if_neg (by simp [hl.1, hl.2])]
  constructor
  · rintro (h | ⟨h1, h2, k, fin, hadm, rfl⟩)
    · exact Or.inl h
    · exact Or.inr ⟨h1, h2, _, ⟨k, fin, hadm, rfl⟩, rfl⟩
  · rintro (h | ⟨h1, h2, g1, ⟨k, fin, hadm, rfl⟩, rfl⟩)
    · exact Or.inl h
    · exact Or.inr ⟨h1, h2, k, fin, hadm, rfl⟩

/-- a failed transfer: only the radio side has moved -/
theorem rx_failed {g : RxG} (hl : g.live) (q : Req) (a : Ans) (g' : RxG) (hr : rxE.R g q a g') (he : ¬a.noErr) :
    g.AdvF g' ∧ ¬FlushReq q := by
  rw [rxR_live hl] at hr
  rcases hr with ⟨hne, _⟩ | ⟨_, hnf, ha⟩
  · exact absurd hne he
  · exact ⟨ha, hnf⟩

theorem rx_flags {g : RxG} (hl : g.live) (r g') (hr : rxE.R g (.rread Gen.REGIRQFLAGS2) (.u8 r) g') :
    (∃ c, r = .error c ∧ g.AdvF g') ∨ ∃ v g1, r = .ok v ∧ g.Adv g1 ∧ g' = { g1 with irq := v } ∧ RxFlagsOk v g1 := by
  cases r with
  | error c => exact Or.inl ⟨c, rfl, (rx_failed hl _ _ _ hr id).1⟩
  | ok v =>
    rw [rxR_live hl] at hr
    rcases hr with ⟨_, k, fin, hadm, hm⟩ | ⟨hne, _⟩
    · unfold rxAnswer at hm
      simp only [show Gen.REGIRQFLAGS2 = 0x3f from rfl, ↓reduceIte] at hm
      exact Or.inr ⟨v, _, rfl, ⟨k, fin, hadm, rfl⟩, hm.1, hm.2⟩
    · exact absurd trivial hne

theorem rx_write3f {g : RxG} (hl : g.live) (v : UInt8) (r g') (hr : rxE.R g (.swrite Gen.REGIRQFLAGS2 [v]) (.unit r) g') :
    (∃ c, r = .error c ∧ v &&& 0x10 = 0 ∧ g.AdvF g') ∨ ∃ g1, r = .ok () ∧ g.Adv g1 ∧ g' = if v &&& 0x10 ≠ 0 then g1.flush else g1 := by
  cases r with
  | error c =>
    obtain ⟨ha, hnf⟩ := rx_failed hl _ _ _ hr id
    refine Or.inl ⟨c, rfl, ?_, ha⟩
    by_cases hv : v &&& 0x10 = 0
    · exact hv
    · exact absurd ⟨rfl, hv⟩ hnf
  | ok u =>
    rw [rxR_live hl] at hr
    rcases hr with ⟨_, k, fin, hadm, hm⟩ | ⟨hne, _⟩
    · unfold rxAnswer at hm
      simp only [show Gen.REGIRQFLAGS2 = 0x3f from rfl, List.length_singleton, and_self, ↓reduceIte, List.headD_cons] at hm
      exact Or.inr ⟨_, rfl, ⟨k, fin, hadm, rfl⟩, hm⟩
    · exact absurd trivial hne

theorem rx_cfg {g : RxG} (hl : g.live) (reg : Nat) (r g') (hr : rxE.R g (.rread reg) (.u8 r) g') :
    (∃ c, r = .error c ∧ g.AdvF g') ∨
    ((reg = 0x30 → r = .ok g.cfg1 ∧ g.Adv g') ∧ (reg = 0x31 → r = .ok g.cfg2 ∧ g.Adv g') ∧ (reg = 0x32 → r = .ok g.plen ∧ g.Adv g') ∧
    (reg = 0x3e ∨ reg = 0x11 → (∃ v, r = .ok v) ∧ g.Adv g')) := by
  cases r with
  | error c => exact Or.inl ⟨c, rfl, (rx_failed hl _ _ _ hr id).1⟩
  | ok v =>
    right
    rw [rxR_live hl] at hr
    rcases hr with ⟨_, k, fin, hadm, hm⟩ | ⟨hne, _⟩
    · unfold rxAnswer at hm
      refine ⟨?_, ?_, ?_, ?_⟩
      · rintro rfl
        simp only [show ¬((0x30:Nat) = 0x3f) by decide, show ¬((0x30:Nat) = 0) by decide, ↓reduceIte] at hm
        exact ⟨by rw [hm.2], ⟨k, fin, hadm, hm.1⟩⟩
      · rintro rfl
        simp only [show ¬((0x31:Nat) = 0x3f) by decide, show ¬((0x31:Nat) = 0) by decide, show ¬((0x31:Nat) = 0x30) by decide, ↓reduceIte] at hm
        exact ⟨by rw [hm.2], ⟨k, fin, hadm, hm.1⟩⟩
      · rintro rfl
        simp only [show ¬((0x32:Nat) = 0x3f) by decide, show ¬((0x32:Nat) = 0) by decide, show ¬((0x32:Nat) = 0x30) by decide,
          show ¬((0x32:Nat) = 0x31) by decide, ↓reduceIte] at hm
        exact ⟨by rw [hm.2], ⟨k, fin, hadm, hm.1⟩⟩
      · rintro (rfl | rfl)
        · simp only [show ¬((0x3e:Nat) = 0x3f) by decide, show ¬((0x3e:Nat) = 0) by decide, show ¬((0x3e:Nat) = 0x30) by decide,
            show ¬((0x3e:Nat) = 0x31) by decide, show ¬((0x3e:Nat) = 0x32) by decide, true_or, ↓reduceIte] at hm
          exact ⟨⟨v, rfl⟩, ⟨k, fin, hadm, hm⟩⟩
        · simp only [show ¬((0x11:Nat) = 0x3f) by decide, show ¬((0x11:Nat) = 0) by decide, show ¬((0x11:Nat) = 0x30) by decide,
            show ¬((0x11:Nat) = 0x31) by decide, show ¬((0x11:Nat) = 0x32) by decide, or_true, ↓reduceIte] at hm
          exact ⟨⟨v, rfl⟩, ⟨k, fin, hadm, hm⟩⟩
    · exact absurd trivial hne

theorem rx_write3e {g : RxG} (hl : g.live) (v : UInt8) (r g') (hr : rxE.R g (.swrite Gen.REGIRQFLAGS1 [v]) (.unit r) g') :
    (∃ c, r = .error c ∧ g.AdvF g') ∨ (r = .ok () ∧ g.Adv g') := by
  cases r with
  | error c => exact Or.inl ⟨c, rfl, (rx_failed hl _ _ _ hr id).1⟩
  | ok u =>
    rw [rxR_live hl] at hr
    rcases hr with ⟨_, k, fin, hadm, hm⟩ | ⟨hne, _⟩
    · unfold rxAnswer at hm
      simp only [show Gen.REGIRQFLAGS1 = 0x3e from rfl, show ¬((0x3e:Nat) = 0x3f) by decide, List.length_singleton, and_self, and_true,
        false_and, ↓reduceIte] at hm
      exact Or.inr ⟨rfl, k, fin, hadm, hm⟩
    · exact absurd trivial hne

theorem rx_bread {g : RxG} (hl : g.live) (n : Nat) (r g') (hr : rxE.R g (.bread Gen.REGFIFO n) (.bytes r) g') :
    (∃ c, r = .error c ∧ g.AdvF g') ∨
    ∃ d g1, r = .ok d ∧ g.Adv g1 ∧ g' = g1.take n ∧ d.length = n ∧ (n ≤ g1.fifo.length → d = g1.fifo.take n) := by
  cases r with
  | error c => exact Or.inl ⟨c, rfl, (rx_failed hl _ _ _ hr id).1⟩
  | ok d =>
    rw [rxR_live hl] at hr
    rcases hr with ⟨_, k, fin, hadm, hm⟩ | ⟨hne, _⟩
    · unfold rxAnswer at hm
      simp only [show Gen.REGFIFO = 0 from rfl, ↓reduceIte] at hm
      exact Or.inr ⟨d, _, rfl, ⟨k, fin, hadm, rfl⟩, hm.1, hm.2.1, hm.2.2⟩
    · exact absurd trivial hne

theorem rx_rfifo {g : RxG} (hl : g.live) (r g') (hr : rxE.R g (.rread Gen.REGFIFO) (.u8 r) g') :
    (∃ c, r = .error c ∧ g.AdvF g') ∨
    ∃ v g1, r = .ok v ∧ g.Adv g1 ∧ g' = g1.take 1 ∧ (1 ≤ g1.fifo.length → [v] = g1.fifo.take 1) := by
  cases r with
  | error c => exact Or.inl ⟨c, rfl, (rx_failed hl _ _ _ hr id).1⟩
  | ok v =>
    rw [rxR_live hl] at hr
    rcases hr with ⟨_, k, fin, hadm, hm⟩ | ⟨hne, _⟩
    · unfold rxAnswer at hm
      simp only [show Gen.REGFIFO = 0 from rfl, show ¬((0:Nat) = 0x3f) by decide, ↓reduceIte] at hm
      exact Or.inr ⟨v, _, rfl, ⟨k, fin, hadm, rfl⟩, hm.1, hm.2⟩
    · exact absurd trivial hne
end Sx
