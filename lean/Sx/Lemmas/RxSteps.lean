import Sx.Lemmas.RxFifo
namespace Sx
open Sx.Model DM

namespace RxG
/-- facts the environment maintains by itself -/
structure Wf (g : RxG) : Prop where
  overPending : g.over = true → g.pending = []
  readyOver : g.ready = true → g.over = true
  crc : g.ready = true → g.crcFlag = (g.crcOn && g.crcGood)
  crcReady : g.crcFlag = true → g.ready = true
  room : g.fifo.length ≤ 63

/-- `g1` is `g` after the demodulator has pushed some bytes -/
def Adv (g g1 : RxG) : Prop := ∃ k fin, g.Adm k ∧ g1 = g.arrive k fin

structure Same (g g1 : RxG) : Prop where
  cfg1 : g1.cfg1 = g.cfg1
  cfg2 : g1.cfg2 = g.cfg2
  plen : g1.plen = g.plen
  crcGood : g1.crcGood = g.crcGood
  cbs : g1.cbs = g.cbs
  ended : g1.ended = g.ended
  poison : g1.poison = g.poison

theorem Adv.facts {g g1 : RxG} (ha : g.Adv g1) (hw : g.Wf) :
    g1.Wf ∧ g.Same g1 ∧ g1.fifo ++ g1.pending = g.fifo ++ g.pending ∧ g.fifo.length ≤ g1.fifo.length ∧
    (g.over = true → g1.over = true ∧ g1.ready = g.ready ∧ g1.crcFlag = g.crcFlag ∧ g1.fifo = g.fifo) ∧
    ((g.over = true → g.ready = true) → (g1.over = true → g1.ready = true)) ∧ g1.irq = g.irq ∧ g1.taken = g.taken := by
  obtain ⟨k, fin, ⟨hk, hroom⟩, rfl⟩ := ha
  unfold arrive
  dsimp only
  have hstream : (g.fifo ++ g.pending.take k) ++ g.pending.drop k = g.fifo ++ g.pending := by
    rw [List.append_assoc, List.take_append_drop]
  have hlen : (g.fifo ++ g.pending.take k).length = g.fifo.length + k := by
    simp [List.length_take]; omega
  split
  · rename_i hc
    obtain ⟨_, hpend, hov⟩ := hc
    refine ⟨⟨fun _ => hpend, fun _ => rfl, fun _ => rfl, fun _ => rfl, by show (g.fifo ++ g.pending.take k).length ≤ 63; omega⟩,
      ⟨rfl, rfl, rfl, rfl, rfl, rfl, rfl⟩, hstream, by show g.fifo.length ≤ (g.fifo ++ g.pending.take k).length; omega, ?_, fun _ _ => rfl, rfl, rfl⟩
    intro ho; rw [ho] at hov; cases hov
  · refine ⟨⟨?_, hw.readyOver, hw.crc, hw.crcReady, by show (g.fifo ++ g.pending.take k).length ≤ 63; omega⟩,
      ⟨rfl, rfl, rfl, rfl, rfl, rfl, rfl⟩, hstream, by show g.fifo.length ≤ (g.fifo ++ g.pending.take k).length; omega, ?_, id, rfl, rfl⟩
    · intro ho
      show g.pending.drop k = []
      rw [hw.overPending ho]; simp
    · intro ho
      refine ⟨ho, rfl, rfl, ?_⟩
      show g.fifo ++ g.pending.take k = g.fifo
      rw [hw.overPending ho]; simp


theorem take_facts (g : RxG) (n : Nat) (hn : n ≤ g.fifo.length) (hw : g.Wf) :
    (g.take n).Wf ∧ g.Same (g.take n) ∧ (g.take n).taken = g.taken ++ g.fifo.take n ∧
    (g.take n).fifo = g.fifo.drop n ∧ (g.take n).pending = g.pending ∧ (g.take n).over = g.over ∧
    (g.fifo.drop n ≠ [] → (g.take n).ready = g.ready ∧ (g.take n).crcFlag = g.crcFlag) ∧ (g.take n).irq = g.irq := by
  unfold take
  by_cases h0 : n = 0
  · subst h0
    rw [if_pos rfl]
    exact ⟨hw, ⟨rfl, rfl, rfl, rfl, rfl, rfl, rfl⟩, by simp, rfl, rfl, rfl, fun _ => ⟨rfl, rfl⟩, rfl⟩
  rw [if_neg h0, if_pos hn]
  dsimp only
  have hroom : (g.fifo.drop n).length ≤ 63 := by have := hw.room; simp; omega
  split
  · rename_i he
    exact ⟨⟨hw.overPending, fun h => absurd h Bool.false_ne_true, fun h => absurd h Bool.false_ne_true, fun h => absurd h Bool.false_ne_true, hroom⟩,
      ⟨rfl, rfl, rfl, rfl, rfl, rfl, rfl⟩, rfl, rfl, rfl, rfl, fun hne => absurd he hne, rfl⟩
  · exact ⟨⟨hw.overPending, hw.readyOver, hw.crc, hw.crcReady, hroom⟩,
      ⟨rfl, rfl, rfl, rfl, rfl, rfl, rfl⟩, rfl, rfl, rfl, rfl, fun _ => ⟨rfl, rfl⟩, rfl⟩

theorem flush_facts (g : RxG) (hw : g.Wf) :
    g.flush.Wf ∧ g.Same g.flush ∧ g.flush.fifo = [] ∧ g.flush.ready = false ∧ g.flush.pending = g.pending ∧ g.flush.taken = g.taken := by
  exact ⟨⟨hw.overPending, fun h => absurd h Bool.false_ne_true, fun h => absurd h Bool.false_ne_true, fun h => absurd h Bool.false_ne_true, by show ([] : List UInt8).length ≤ 63; simp⟩,
    ⟨rfl, rfl, rfl, rfl, rfl, rfl, rfl⟩, rfl, rfl, rfl, rfl⟩

theorem Same.refl (g : RxG) : g.Same g := ⟨rfl, rfl, rfl, rfl, rfl, rfl, rfl⟩
theorem Same.trans {a b c : RxG} (h1 : a.Same b) (h2 : b.Same c) : a.Same c :=
  ⟨h2.cfg1.trans h1.cfg1, h2.cfg2.trans h1.cfg2, h2.plen.trans h1.plen,
   h2.crcGood.trans h1.crcGood, h2.cbs.trans h1.cbs, h2.ended.trans h1.ended, h2.poison.trans h1.poison⟩
theorem Same.live {g g1 : RxG} (h : g.Same g1) (hl : g.live) : g1.live := ⟨h.poison.trans hl.1, h.ended.trans hl.2⟩
end RxG

theorem rxR_live {g : RxG} (hl : g.live) (q a g') : rxE.R g q a g' ↔ (a.noErr ∧ rxRLive g q a g') := by
  show rxR g q a g' ↔ _
  unfold rxR
  rw [if_neg (by simp [hl.1, hl.2])]

theorem rx_flags {g : RxG} (hl : g.live) (r g') (hr : rxE.R g (.rread Gen.REGIRQFLAGS2) (.u8 r) g') :
    ∃ v g1, r = .ok v ∧ g.Adv g1 ∧ g' = { g1 with irq := v } ∧ RxFlagsOk v g1 := by
  rw [rxR_live hl] at hr
  obtain ⟨hne, k, fin, hadm, hm⟩ := hr
  unfold rxAnswer at hm
  cases r with
  | error c => exact absurd hne id
  | ok v =>
    simp only [show Gen.REGIRQFLAGS2 = 0x3f from rfl, ↓reduceIte] at hm
    exact ⟨v, _, rfl, ⟨k, fin, hadm, rfl⟩, hm.1, hm.2⟩

theorem rx_write3f {g : RxG} (hl : g.live) (v : UInt8) (r g') (hr : rxE.R g (.swrite Gen.REGIRQFLAGS2 [v]) (.unit r) g') :
    ∃ g1, r = .ok () ∧ g.Adv g1 ∧ g' = if v &&& 0x10 ≠ 0 then g1.flush else g1 := by
  rw [rxR_live hl] at hr
  obtain ⟨hne, k, fin, hadm, hm⟩ := hr
  unfold rxAnswer at hm
  cases r with
  | error c => exact absurd hne id
  | ok u =>
    simp only [show Gen.REGIRQFLAGS2 = 0x3f from rfl, List.length_singleton, and_self, ↓reduceIte, List.headD_cons] at hm
    exact ⟨_, rfl, ⟨k, fin, hadm, rfl⟩, hm⟩

theorem rx_cfg {g : RxG} (hl : g.live) (reg : Nat) (r g') (hr : rxE.R g (.rread reg) (.u8 r) g') :
    (reg = 0x30 → r = .ok g.cfg1 ∧ g.Adv g') ∧ (reg = 0x31 → r = .ok g.cfg2 ∧ g.Adv g') ∧ (reg = 0x32 → r = .ok g.plen ∧ g.Adv g') ∧
    (reg = 0x3e ∨ reg = 0x11 → (∃ v, r = .ok v) ∧ g.Adv g') := by
  rw [rxR_live hl] at hr
  obtain ⟨hne, k, fin, hadm, hm⟩ := hr
  unfold rxAnswer at hm
  cases r with
  | error c => exact absurd hne id
  | ok v =>
    refine ⟨?_, ?_, ?_, ?_⟩
    · rintro rfl
      simp only [show ¬((0x30:Nat) = 0x3f) by decide, show ¬((0x30:Nat) = 0) by decide, ↓reduceIte] at hm
      exact ⟨by rw [hm.2], ⟨k, fin, hadm, hm.1⟩⟩
    · rintro rfl
      simp only [show ¬((0x31:Nat) = 0x3f) by decide, show ¬((0x31:Nat) = 0) by decide, show ¬((0x31:Nat) = 0x30) by decide, ↓reduceIte] at hm
      exact ⟨by rw [hm.2], ⟨k, fin, hadm, hm.1⟩⟩
    · rintro rfl
      simp only [show ¬((0x32:Nat) = 0x3f) by decide, show ¬((0x32:Nat) = 0) by decide, show ¬((0x32:Nat) = 0x30) by decide,
        show ¬((0x32:Nat) = 0x31) by decide, ↓reduceIte] at hm
      exact ⟨by rw [hm.2], ⟨k, fin, hadm, hm.1⟩⟩
    · rintro (rfl | rfl)
      · simp only [show ¬((0x3e:Nat) = 0x3f) by decide, show ¬((0x3e:Nat) = 0) by decide, show ¬((0x3e:Nat) = 0x30) by decide,
          show ¬((0x3e:Nat) = 0x31) by decide, show ¬((0x3e:Nat) = 0x32) by decide, true_or, ↓reduceIte] at hm
        exact ⟨⟨v, rfl⟩, ⟨k, fin, hadm, hm⟩⟩
      · simp only [show ¬((0x11:Nat) = 0x3f) by decide, show ¬((0x11:Nat) = 0) by decide, show ¬((0x11:Nat) = 0x30) by decide,
          show ¬((0x11:Nat) = 0x31) by decide, show ¬((0x11:Nat) = 0x32) by decide, or_true, ↓reduceIte] at hm
        exact ⟨⟨v, rfl⟩, ⟨k, fin, hadm, hm⟩⟩

theorem rx_write3e {g : RxG} (hl : g.live) (v : UInt8) (r g') (hr : rxE.R g (.swrite Gen.REGIRQFLAGS1 [v]) (.unit r) g') :
    r = .ok () ∧ g.Adv g' := by
  rw [rxR_live hl] at hr
  obtain ⟨hne, k, fin, hadm, hm⟩ := hr
  unfold rxAnswer at hm
  cases r with
  | error c => exact absurd hne id
  | ok u =>
    simp only [show Gen.REGIRQFLAGS1 = 0x3e from rfl, show ¬((0x3e:Nat) = 0x3f) by decide, List.length_singleton, and_self, and_true,
      false_and, ↓reduceIte] at hm
    exact ⟨rfl, ⟨k, fin, hadm, hm⟩⟩

theorem rx_bread {g : RxG} (hl : g.live) (n : Nat) (r g') (hr : rxE.R g (.bread Gen.REGFIFO n) (.bytes r) g') :
    ∃ d g1, r = .ok d ∧ g.Adv g1 ∧ g' = g1.take n ∧ d.length = n ∧ (n ≤ g1.fifo.length → d = g1.fifo.take n) := by
  rw [rxR_live hl] at hr
  obtain ⟨hne, k, fin, hadm, hm⟩ := hr
  unfold rxAnswer at hm
  cases r with
  | error c => exact absurd hne id
  | ok d =>
    simp only [show Gen.REGFIFO = 0 from rfl, ↓reduceIte] at hm
    exact ⟨d, _, rfl, ⟨k, fin, hadm, rfl⟩, hm.1, hm.2.1, hm.2.2⟩

theorem rx_rfifo {g : RxG} (hl : g.live) (r g') (hr : rxE.R g (.rread Gen.REGFIFO) (.u8 r) g') :
    ∃ v g1, r = .ok v ∧ g.Adv g1 ∧ g' = g1.take 1 ∧ (1 ≤ g1.fifo.length → [v] = g1.fifo.take 1) := by
  rw [rxR_live hl] at hr
  obtain ⟨hne, k, fin, hadm, hm⟩ := hr
  unfold rxAnswer at hm
  cases r with
  | error c => exact absurd hne id
  | ok v =>
    simp only [show Gen.REGFIFO = 0 from rfl, show ¬((0:Nat) = 0x3f) by decide, ↓reduceIte] at hm
    exact ⟨v, _, rfl, ⟨k, fin, hadm, rfl⟩, hm.1, hm.2⟩
end Sx
