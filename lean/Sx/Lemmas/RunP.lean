import Sx.RunP
import Sx.Props.C02
import Sx.Lemmas.Wp
/-
  `runP` is what the uncached interpreter does in a plain world; together with C02 it is what
  the cached build does for an API call between two operations.
-/
namespace Sx
open Mem Chip Cache

def PRel {α : Type} (o : Outcome α) (p : PRes α) : Prop :=
  match o, p with
  | .done a w, .done b s => a = b ∧ w.chip = s.chip ∧ w.bus = s.bus ∧ w.cbs.map (·.ev) = s.cbs
      ∧ w.Plain ∧ (∀ c ∈ w.cbs, c.reaction = none)
  | .ub u _, .ub u' _ => u = u'
  | _, _ => False

theorem execG_runP (p : Prog α) (w : World) (hpl : w.Plain) (hnr : ∀ c ∈ w.cbs, c.reaction = none) :
    PRel (execG false logCb p w) (runP p ⟨w.chip, w.bus, w.cbs.map (·.ev)⟩) := by
  induction p generalizing w with
  | ret a => exact ⟨rfl, rfl, rfl, rfl, hpl, hnr⟩
  | ub u => rfl
  | sread reg n k ih =>
    simp only [execG, runP, Shadow.sread, Bool.not_false, ↓reduceIte, Shadow.busStep]
    rw [busRead_plain hpl]
    exact ih _ _ hpl hnr
  | rread reg k ih =>
    simp only [execG, runP, Shadow.rread, Bool.not_false, ↓reduceIte, Shadow.busStep1]
    rw [busRead_plain hpl]
    exact ih _ _ hpl hnr
  | swrite reg d k ih =>
    simp only [execG, runP, Shadow.swrite]
    rw [busWrite_plain hpl]
    exact ih _ _ hpl hnr
  | bwrite reg d k ih =>
    simp only [execG, runP, Shadow.bwrite]
    rw [busWriteBuf_plain hpl]
    exact ih _ _ hpl hnr
  | bread reg n k ih =>
    simp only [execG, runP]
    rw [busReadBuf_plain hpl]
    exact ih _ _ hpl hnr
  | rawbread reg n k ih =>
    simp only [execG, runP]
    rw [busReadBuf_plain hpl]
    exact ih _ _ hpl hnr
  | callback e h k ih =>
    simp only [execG, runP, logCb]
    have := ih h { w with cbs := { ev := e } :: w.cbs } hpl (by
      intro c hc
      simp only [List.mem_cons] at hc
      rcases hc with rfl | hc
      · rfl
      · exact hnr c hc)
    simpa using this


/-- the application does nothing inside callbacks -/
def SysCfg.NoReact (c : SysCfg) : Prop := c.onRx = none ∧ c.onTx = none ∧ c.onCad = none

theorem SysCfg.NoReact.valid {c : SysCfg} (h : c.NoReact) : c.Valid :=
  ⟨fun a e => (by rw [h.1] at e; cases e), fun a e => (by rw [h.2.1] at e; cases e), fun a e => (by rw [h.2.2] at e; cases e)⟩

theorem onCb_noReact {c : SysCfg} (h : c.NoReact) : c.uncached.toCfg.onCb = logCb := by
  funext e hd w
  unfold Cfg.onCb
  have : c.uncached.toCfg.reactionFor e = none := by
    cases e <;> simp [Cfg.reactionFor, SysCfg.toCfg, SysCfg.uncached, SysCfg.reaction, h.1, h.2.1, h.2.2]
  rw [this]

theorem onCb_noReact' {c : SysCfg} (h : c.NoReact) : c.toCfg.onCb = logCb := by
  funext e hd w
  unfold Cfg.onCb
  have : c.toCfg.reactionFor e = none := by
    cases e <;> simp [Cfg.reactionFor, SysCfg.toCfg, SysCfg.reaction, h.1, h.2.1, h.2.2]
  rw [this]

/-- **Bridge.**  What plain execution (`wp` over `runP`) establishes for an API call holds for
    the same call in the build with the register cache, from any state satisfying the
    invariant of C01 (i.e. after any admissible history): same return value, same handle, same
    chip afterwards, same callbacks, same writes — and the invariant holds again. -/
theorem step_cached_of_wp (c : SysCfg) (hc : c.cached = true) (hnr : c.NoReact)
    (s : Sys) (i : Inv s.world) (a : Api) (hv : a.Valid) (h : Handle) (hh : s.handle = some h)
    (hnc : a.isCreate = false)
    (Q : Except Code Out → Handle → PState → Prop)
    (hw : wp (Api.prog c.cap c.fuel a) h ⟨s.world.chip, [], []⟩ Q) :
    ∃ r h' ps cbs bus,
      (s.step c (.api a [] [])).2 = .ret r cbs bus ∧
      (s.step c (.api a [] [])).1.handle = some h' ∧
      (s.step c (.api a [] [])).1.world.chip = ps.chip ∧
      Q r h' ps ∧ cbs.map (·.ev) = ps.cbs.reverse ∧ writesOf bus = writesOf ps.bus.reverse ∧
      Inv (s.step c (.api a [] [])).1.world := by
  have hsim := step_sim c hc hnr.valid s s ⟨rfl, rfl, i⟩ (.api a [] []) ⟨rfl, rfl⟩ hv (fun e he => by cases he)
  have hinv := step_inv c hc s (.api a [] []) (fun e he => by cases he) i
  -- the uncached side is plain execution
  have hu : ∃ r h' ps, runP (Api.prog c.cap c.fuel a h) ⟨s.world.chip, [], []⟩ = .done (r, h') ps ∧ Q r h' ps ∧
      (s.step c.uncached (.api a [] [])).2 = .ret r ((ps.cbs.reverse).map (fun e => { ev := e })) ps.bus.reverse ∧
      (s.step c.uncached (.api a [] [])).1.handle = some h' ∧
      (s.step c.uncached (.api a [] [])).1.world.chip = ps.chip := by
    unfold wp at hw
    cases hr : runP (Api.prog c.cap c.fuel a h) ⟨s.world.chip, [], []⟩ with
    | ub u ps => rw [hr] at hw; exact absurd hw id
    | done rh ps =>
      rw [hr] at hw
      obtain ⟨r, h'⟩ := rh
      refine ⟨r, h', ps, rfl, hw, ?_⟩
      have hskip : ¬(s.handle.isNone = true ∧ (!a.isCreate) = true) := by simp [hh]
      have hp := execG_runP (Api.prog c.cap c.fuel a h)
        { s.world with xfer := 0, sched := [], faults := [], bus := [], cbs := [], cache := s.world.cache }
        ⟨rfl, rfl⟩ (fun c hc => by cases hc)
      simp only [List.map_nil] at hp
      rw [hr] at hp
      unfold Sys.step
      dsimp only
      rw [if_neg hskip, hh]
      simp only [Option.getD_some, hnc, Bool.false_eq_true, ↓reduceIte]
      unfold exec
      rw [onCb_noReact hnr]
      have h2 : c.uncached.toCfg.cached = false := rfl
      have h3 : c.uncached.cap = c.cap := rfl
      have h4 : c.uncached.fuel = c.fuel := rfl
      rw [h2, h3, h4]
      generalize execG false logCb (Api.prog c.cap c.fuel a h) _ = o at hp
      cases o with
      | ub u w => simp only [PRel] at hp
      | done rh w =>
        obtain ⟨r2, h2'⟩ := rh
        simp only [PRel] at hp
        obtain ⟨hrr, hchip, hbus, hcbs, hplain, hnoreact⟩ := hp
        cases hrr
        simp only [hplain.1, List.foldl_nil]
        refine ⟨?_, trivial, hchip⟩
        rw [hbus]
        congr 1
        -- callbacks without reaction are determined by their events
        have : w.cbs = (w.cbs.map (·.ev)).map (fun e => ({ ev := e } : CbRec)) := by
          rw [List.map_map]
          conv => lhs; rw [← List.map_id w.cbs]
          apply List.map_congr_left
          intro x hx
          have := hnoreact x hx
          cases x
          simp_all
        rw [this, hcbs, List.map_reverse]
  obtain ⟨r, h', ps, _, hq, hobs, hhd, hchip⟩ := hu
  obtain ⟨hrel, hsr⟩ := hsim
  rw [hobs] at hrel
  cases hc' : (s.step c (.api a [] [])).2 with
  | skipped => rw [hc'] at hrel; simp [ObsRel] at hrel
  | env => rw [hc'] at hrel; simp [ObsRel] at hrel
  | ub u => rw [hc'] at hrel; simp [ObsRel] at hrel
  | ret r1 cbs1 bus1 =>
    rw [hc'] at hrel
    simp only [ObsRel] at hrel
    obtain ⟨h1, h2, h3, _⟩ := hrel
    have hsr' := hsr (fun u => by rw [hc']; intro e; cases e)
    refine ⟨r1, h', ps, cbs1, bus1, rfl, ?_, ?_, by rw [h1]; exact hq, ?_, h3, hinv⟩
    · rw [hsr'.handle]; exact hhd
    · rw [hsr'.chip]; exact hchip
    · rw [h2, List.map_map]
      simp only [List.map_reverse]
      congr 1
      generalize ps.cbs = l
      induction l with
      | nil => rfl
      | cons x xs ih => simp only [List.map_cons, Function.comp_apply, ih]

/-- the build without the cache, on an operation without schedule and faults, is plain execution -/
theorem step_uncached_runP (c : SysCfg) (hnr : c.NoReact) (s : Sys) (a : Api) (h : Handle) (hh : s.handle = some h)
    (hnc : a.isCreate = false) :
    match runP (Api.prog c.cap c.fuel a h) ⟨s.world.chip, [], []⟩ with
    | .done (r, h') ps =>
      (s.step c.uncached (.api a [] [])).2 = .ret r ((ps.cbs.reverse).map (fun e => { ev := e })) ps.bus.reverse ∧
      (s.step c.uncached (.api a [] [])).1.handle = some h' ∧
      (s.step c.uncached (.api a [] [])).1.world.chip = ps.chip
    | .ub u _ => (s.step c.uncached (.api a [] [])).2 = .ub u := by
  have hskip : ¬(s.handle.isNone = true ∧ (!a.isCreate) = true) := by simp [hh]
  have hp := execG_runP (Api.prog c.cap c.fuel a h)
    { s.world with xfer := 0, sched := [], faults := [], bus := [], cbs := [], cache := s.world.cache }
    ⟨rfl, rfl⟩ (fun c hc => by cases hc)
  simp only [List.map_nil] at hp
  have h2 : c.uncached.toCfg.cached = false := rfl
  have h3 : c.uncached.cap = c.cap := rfl
  have h4 : c.uncached.fuel = c.fuel := rfl
  cases hr : runP (Api.prog c.cap c.fuel a h) ⟨s.world.chip, [], []⟩ with
  | ub u ps =>
    rw [hr] at hp
    unfold Sys.step
    dsimp only
    rw [if_neg hskip, hh]
    simp only [Option.getD_some, hnc, Bool.false_eq_true, ↓reduceIte]
    unfold exec
    rw [onCb_noReact hnr, h2, h3, h4]
    generalize execG false logCb (Api.prog c.cap c.fuel a h) _ = o at hp
    cases o with
    | ub u' w => simp only [PRel] at hp; subst hp; rfl
    | done rh w => simp only [PRel] at hp
  | done rh ps =>
    rw [hr] at hp
    obtain ⟨r, h'⟩ := rh
    unfold Sys.step
    dsimp only
    rw [if_neg hskip, hh]
    simp only [Option.getD_some, hnc, Bool.false_eq_true, ↓reduceIte]
    unfold exec
    rw [onCb_noReact hnr, h2, h3, h4]
    generalize execG false logCb (Api.prog c.cap c.fuel a h) _ = o at hp
    cases o with
    | ub u w => simp only [PRel] at hp
    | done rh w =>
      obtain ⟨r2, h2'⟩ := rh
      simp only [PRel] at hp
      obtain ⟨hrr, hchip, hbus, hcbs, hplain, hnoreact⟩ := hp
      cases hrr
      simp only [hplain.1, List.foldl_nil]
      refine ⟨?_, trivial, hchip⟩
      rw [hbus]
      congr 1
      have : w.cbs = (w.cbs.map (·.ev)).map (fun e => ({ ev := e } : CbRec)) := by
        rw [List.map_map]
        conv => lhs; rw [← List.map_id w.cbs]
        apply List.map_congr_left
        intro x hx
        have := hnoreact x hx
        cases x
        simp_all
      rw [this, hcbs, List.map_reverse]

/-- if the build with the cache returns (no undefined behaviour), plain execution returns the
    same code, the handle afterwards is the one plain execution leaves, and the writes are the
    same — from any state satisfying the invariant of C01 -/
theorem step_cached_ret (c : SysCfg) (hc : c.cached = true) (hnr : c.NoReact)
    (s : Sys) (i : Inv s.world) (a : Api) (hv : a.Valid) (h : Handle) (hh : s.handle = some h)
    (hnc : a.isCreate = false) (r : Except Code Out) (cbs : List CbRec) (bus : List BusEv)
    (hret : (s.step c (.api a [] [])).2 = .ret r cbs bus) :
    ∃ h' ps, runP (Api.prog c.cap c.fuel a h) ⟨s.world.chip, [], []⟩ = .done (r, h') ps ∧
      (s.step c (.api a [] [])).1.handle = some h' ∧ writesOf bus = writesOf ps.bus.reverse := by
  have hsim := step_sim c hc hnr.valid s s ⟨rfl, rfl, i⟩ (.api a [] []) ⟨rfl, rfl⟩ hv (fun e he => by cases he)
  have hu := step_uncached_runP c hnr s a h hh hnc
  obtain ⟨hrel, hsr⟩ := hsim
  rw [hret] at hrel
  cases hr : runP (Api.prog c.cap c.fuel a h) ⟨s.world.chip, [], []⟩ with
  | ub u ps =>
    rw [hr] at hu
    dsimp only at hu
    rw [hu] at hrel
    simp [ObsRel] at hrel
  | done rh ps =>
    rw [hr] at hu
    obtain ⟨r0, h0⟩ := rh
    dsimp only at hu
    obtain ⟨ho, hhd, _⟩ := hu
    rw [ho] at hrel
    simp only [ObsRel] at hrel
    obtain ⟨h1, _, h3, _⟩ := hrel
    subst h1
    have hsr' := hsr (fun u => by rw [hret]; intro e; cases e)
    exact ⟨h0, ps, rfl, by rw [hsr'.handle]; exact hhd, h3⟩

end Sx
