import Sx.Lemmas.Safe
import Sx.Lemmas.SafePost
import Sx.Lemmas.RxLen
import Sx.Sys
import Sx.Lemmas.Mem
/-
  Per-function lemmas for C08: no access outside `device->packet` or the caller's frequency list
  (nor any other undefined behaviour except the float→integer conversions and the two
  chip-bounded loops, which are treated separately), for every answer of chip and bus.
-/
namespace Sx
open Sx.Model DM

attribute [local irreducible] DM.rread DM.sread DM.swrite DM.bwrite DM.bread DM.rawbread DM.cb DM.modH DM.setH
  DM.getH DM.fail DM.ub DM.attempt DM.pure' DM.bind' DM.ofExcept
  freqOfRaw loraFreqError fskFreqError ppmFloat beaconTimers fskBitrateValue ookBitrateValue fdevValue
  calculateBwRegister rssiRefine snrOf bandwidthOfCode F.lt F.gt F.le F.toSInt F.toUInt F.ofBits32 F.div F.ofNat

/-- the kinds of undefined behaviour excluded here: everything but an out-of-range float→integer
    conversion and exhausted fuel of a chip-bounded loop -/
def memBad (u : UB) : Prop := u ≠ .castRange ∧ u ≠ .fuel

instance (u : UB) : Decidable (memBad u) := by unfold memBad; exact inferInstance

/-- what every API call relies on and re-establishes: the packet buffer has its size, and a
    registered frequency list has at least `frequencies_length ≥ 1` entries -/
def HInv (cap : Nat) (h : Handle) : Prop :=
  h.packet.length = cap ∧ (∀ l, h.freqs = some l → 1 ≤ h.freqLen.toNat ∧ h.freqLen.toNat ≤ l.length)
    ∧ h.received.toNat ≤ cap

/-- what the driver may hand to a callback: the length of a receive callback is within the packet
    buffer, and the bytes it announces are there (`data` is `packet[0..len)` cut at the buffer's
    end, so `data.length = len` says that nothing was cut) -/
def CbLen (cap : Nat) : CbEvent → Prop
  | .rx d n => n ≤ cap ∧ d.length = n
  | _ => True

abbrev SafeM (cap : Nat) (x : DM α) : Prop := SafeI memBad (CbLen cap) (HInv cap) x

variable {cap : Nat}

macro "safe_mod" : tactic => `(tactic| (apply DM.SafeI_modH; intro _ hi; exact hi))
macro "safe_ubx" : tactic => `(tactic| (apply DM.SafeI_ub; decide))

macro "safe0" : tactic => `(tactic| repeat (first
  | safe_step | safe_mod | safe_ubx | (apply DM.SafeI_ite <;> intro _) | split | dsimp only))

theorem s_checkModulation (m : Nat) : SafeM cap (checkModulation m) := by unfold checkModulation; safe0
theorem s_checkFskOok : SafeM cap checkFskOok := by unfold checkFskOok; safe0
theorem s_appendRegister (reg : Nat) (v m : UInt8) : SafeM cap (appendRegister reg v m) := by unfold appendRegister; safe0
theorem s_getFrequency : SafeM cap getFrequency := by unfold getFrequency; safe0
theorem s_setFrequency (f : UInt64) : SafeM cap (setFrequency f) := by unfold setFrequency; safe0

theorem s_packetStore (i : Nat) (v : UInt8) (hi : i < cap) : SafeM cap (packetStore i v) := by
  unfold packetStore
  apply SafeI_getH_bind; intro h hh
  rw [if_pos (by rw [hh.1]; exact hi)]
  apply SafeI_setH
  exact ⟨by simp [Mem.wr, hh.1], hh.2⟩

theorem s_packetCopy (off : Nat) (d : List UInt8) (hd : off + d.length ≤ cap) : SafeM cap (packetCopy off d) := by
  unfold packetCopy
  apply SafeI_getH_bind; intro h hh
  rw [if_pos (by rw [hh.1]; exact hd)]
  apply SafeI_setH
  exact ⟨by rw [Mem.length_wrs]; exact hh.1, hh.2⟩

theorem s_fixedLen : SafeM cap fskOokReadFixedPacketLength := by unfold fskOokReadFixedPacketLength; safe0
theorem s_addrFilt : SafeM cap fskOokIsAddressFiltered := by unfold fskOokIsAddressFiltered; safe0

theorem s_header : SafeM cap readPayloadHeader := by
  unfold readPayloadHeader
  repeat (first | exact s_fixedLen | exact s_addrFilt | safe_step | safe_mod | (apply DM.SafeI_ite <;> intro _) | split | dsimp only)

theorem u16_add_toNat_le (a b : UInt16) : (a + b).toNat ≤ a.toNat + b.toNat := by
  rw [UInt16.toNat_add]; exact Nat.mod_le _ _

theorem s_drainLoop (fuel : Nat) : SafeM cap (drainLoop fuel) := by
  induction fuel with
  | zero => unfold drainLoop; safe_ubx
  | succ n ih =>
    unfold drainLoop
    constructor
    intro h hh
    rw [Safe_at_getH_bind]
    apply Safe_at_ite
    · intro _; exact (Safe_at_fail _ _).mpr hh
    · intro hlt
      have hidx : h.received.toNat < h.packet.length := by omega
      apply Safe_at_rread_bind _ _ _ hh; intro v
      apply Safe_at_packetStore_bind _ _ _ _ hidx
      rw [Safe_at_modH_bind]
      have hh' : HInv cap { h with packet := h.packet.wr h.received.toNat v, received := h.received + 1 } := by
        refine ⟨by simp [Mem.wr, hh.1], hh.2.1, ?_⟩
        have := u16_add_toNat_le h.received 1
        have h1 : (1 : UInt16).toNat = 1 := rfl
        show (h.received + 1).toNat ≤ cap
        rw [← hh.1]; omega
      apply Safe_at_rread_bind _ _ _ hh'; intro irq
      apply Safe_at_ite
      · intro _; exact ih.s _ hh'
      · intro _; exact (Safe_at_pure _ _).mpr hh'

theorem s_batch (fuel : Nat) (b : Bool) : SafeM cap (fskOokReadPayloadBatch fuel b) := by
  unfold fskOokReadPayloadBatch
  apply SafeI_bind s_header; intro hdr
  cases hdr with
  | none => exact SafeI_pure _
  | some consumed =>
    dsimp only
    constructor
    intro h hh
    rw [Safe_at_getH_bind]
    apply Safe_at_ite
    · intro _; exact (Safe_at_pure _ _).mpr hh
    · intro _
      apply Safe_at_ite
      · intro _; exact (Safe_at_fail _ _).mpr hh
      · intro hfit
        have hfit' : h.expected.toNat ≤ cap := by rw [← hh.1]; omega
        apply Safe_at_ite
        · intro _
          apply Safe_at_ite
          · intro hb
            have hroom : h.received.toNat + (Gen.HALF_MAX_FIFO_THRESHOLD - 1) ≤ cap := by omega
            rw [if_pos (by rw [hh.1]; exact hroom)]
            apply Safe_at_bread_bind _ _ _ _ hh; intro d hd
            apply Safe_at_packetCopy_bind _ _ _ _ (by rw [hd, hh.1]; exact hroom)
            rw [Safe_at_modH]
            refine ⟨by simp [hh.1], hh.2.1, ?_⟩
            have := u16_add_toNat_le h.received (UInt16.ofNat (Gen.HALF_MAX_FIFO_THRESHOLD - 1))
            have h1 : (UInt16.ofNat (Gen.HALF_MAX_FIFO_THRESHOLD - 1)).toNat = Gen.HALF_MAX_FIFO_THRESHOLD - 1 := by decide
            show (h.received + UInt16.ofNat (Gen.HALF_MAX_FIFO_THRESHOLD - 1)).toNat ≤ cap
            omega
          · intro _; exact (Safe_at_pure _ _).mpr hh
        · intro _
          apply Safe_at_ite
          · intro hs
            rw [if_pos (by rw [hh.1]; exact hfit')]
            apply Safe_at_bread_bind _ _ _ _ hh; intro d hd
            apply Safe_at_packetCopy_bind _ _ _ _ (by rw [hd, hh.1]; omega)
            rw [Safe_at_modH]
            exact ⟨by simp [hh.1], hh.2.1, hfit'⟩
          · intro _; exact (s_drainLoop _).s h hh

theorem s_getRssi : SafeM cap fskOokGetRssi := by unfold fskOokGetRssi; safe0
/-- the receive callback, from a handle whose recorded length fits the buffer -/
theorem at_rxCb (h : Handle) (hh : HInv cap h) (he : h.expected.toNat ≤ cap) :
    (rxCallback h).Safe memBad (CbLen cap) (HInv cap) := by
  unfold rxCallback
  rw [Safe_at_getH_bind]
  apply Safe_at_ite
  · intro _
    refine (Safe_at_cb _ _).mpr ⟨⟨⟨he, ?_⟩, hh⟩, fun _ hi => hi⟩
    rw [List.length_take, hh.1]; omega
  · intro _; exact (Safe_at_pure _ _).mpr hh
theorem s_txCb : SafeM cap txCallback := by unfold txCallback; safe0

theorem s_resetState : SafeM cap (modH resetState) := by
  apply SafeI_modH; intro _ hi; exact ⟨hi.1, hi.2.1, Nat.zero_le _⟩

theorem s_setActiveModem (opmod modulation : Nat) : SafeM cap (modH (setActiveModem opmod modulation)) := by
  apply SafeI_modH; intro h hi
  have hr : ∀ h, HInv cap h → HInv cap (resetState h) := fun h hi => ⟨hi.1, hi.2.1, Nat.zero_le _⟩
  have hi' : ∀ (c : Prop) [Decidable c] (x : Handle), HInv cap x → HInv cap (if c then resetState x else x) := by
    intro c _ x hx; split
    · exact hr _ hx
    · exact hx
  have hset : ∀ x : Handle, HInv cap x → HInv cap { x with activeModem := modulation, opmod := opmod } :=
    fun x hx => ⟨hx.1, hx.2.1, hx.2.2⟩
  unfold setActiveModem
  exact hset _ (hi' _ _ (hi' _ _ hi))

macro "safe_fsk" : tactic => `(tactic| repeat (first
    | exact s_batch _ _ | exact s_txCb | exact s_getRssi | exact s_resetState
    | safe_step | safe_mod | safe_ubx | (apply DM.SafeI_ite <;> intro _) | split | dsimp only))

theorem s_fskIrq (fuel : Nat) : SafeM cap (fskOokHandleInterrupt fuel) := by
  unfold fskOokHandleInterrupt
  apply SafeI_bind (SafeI_rread _); intro irq
  apply SafeI_bind (SafeI_swrite _ _); intro _
  constructor
  intro h hh
  rw [Safe_at_getH_bind]
  apply Safe_at_ite
  · intro _
    -- PayloadReady: the callback relies on what a successful read leaves behind
    refine (?_ : SafeM cap _).s h hh
    apply SafeI_ite
    · intro _; exact SafeI_bind (SafeI_swrite _ _) (fun _ => s_resetState)
    · intro _
      refine SafeI_attempt_bind_post
        (fun r h' => r = .ok () → h'.expected.toNat ≤ h'.packet.length ∨ h'.expected = h'.received)
        (s_batch _ _) (batch_post _ _) ?_
      intro r h' hi' hq
      cases r with
      | ok u =>
        refine Safe_at_bind_of h' (at_rxCb h' hi' ?_) (fun _ h2 hi2 => s_resetState.s h2 hi2)
        rcases hq rfl with h1 | h1
        · rw [← hi'.1]; exact h1
        · rw [h1]; exact hi'.2.2
      | error c => exact (SafeI_bind (SafeI_swrite _ _) (fun _ => s_resetState)).s h' hi'
  · intro _
    apply Safe_at_ite
    · intro _; refine (?_ : SafeM cap _).s h hh; safe_fsk
    · intro _
      apply Safe_at_ite
      · intro _
        apply Safe_at_ite
        · intro _; refine (?_ : SafeM cap _).s h hh; safe_fsk
        · intro _
          apply Safe_at_ite
          · intro _
            dsimp only
            apply Safe_at_ite
            · intro _; exact (Safe_at_pure _ _).mpr hh
            · intro _
              apply Safe_at_ite
              · intro _; exact (Safe_at_pure _ _).mpr hh
              · intro hle
                rw [if_pos (by omega)]
                apply Safe_at_bwrite_bind _ _ _ _ hh
                rw [Safe_at_modH]
                refine ⟨hh.1, hh.2.1, ?_⟩
                generalize (if (h.expected.toNat : Int) - (h.received.toNat : Int) > ((Gen.HALF_MAX_FIFO_THRESHOLD - 1 : Nat) : Int) then
                  u8 (Gen.HALF_MAX_FIFO_THRESHOLD - 1) else UInt8.ofNat (((h.expected.toNat : Int) - (h.received.toNat : Int)) % 256).toNat) = t at hle ⊢
                have := u16_add_toNat_le h.received t.toUInt16
                have ht : t.toUInt16.toNat = t.toNat := by simp
                show (h.received + t.toUInt16).toNat ≤ cap
                rw [← hh.1]; omega
          · intro _; exact (Safe_at_pure _ _).mpr hh
      · intro _; refine (?_ : SafeM cap _).s h hh; safe_fsk

theorem s_loraRead : SafeM cap loraRxReadPayload := by
  unfold loraRxReadPayload
  apply SafeI_bind (s_checkModulation _); intro _
  apply SafeI_getH_bind; intro h hh
  apply SafeI_bind (by safe0); intro len
  apply SafeI_ite
  · intro _; exact SafeI_fail _
  · intro hfit
    have hfit' : len.toNat ≤ cap := by rw [← hh.1]; omega
    apply SafeI_bind (by safe_mod); intro _
    apply SafeI_bind (SafeI_rread _); intro cur
    apply SafeI_bind (SafeI_swrite _ _); intro _
    apply SafeI_getH_bind; intro h2 hh2
    rw [if_pos (by rw [hh2.1]; exact hfit')]
    apply SafeI_bread_bind; intro d hd
    exact s_packetCopy _ _ (by rw [hd]; omega)

theorem s_loraGuard (e : UInt16) : SafeM cap (loraReadGuard e) := by
  unfold loraReadGuard
  repeat (first | exact s_loraRead | safe_step | safe_mod | split | dsimp only)

theorem getElem?_some_of_lt {α : Type} (l : List α) (i : Nat) (h : i < l.length) : ∃ x, l[i]? = some x :=
  ⟨l[i], by simp [h]⟩

theorem s_loraIrq : SafeM cap loraHandleInterrupt := by
  unfold loraHandleInterrupt
  apply SafeI_bind (SafeI_rread _); intro v
  apply SafeI_bind (SafeI_swrite _ _); intro _
  apply SafeI_getH_bind; intro h hh
  apply SafeI_ite
  · intro _; safe0
  · intro _
    apply SafeI_ite
    · intro _; safe_mod
    · intro _
      apply SafeI_ite
      · intro _
        -- RxDone: the callback relies on the length a successful read recorded
        refine SafeI_bind_post (fun r h' => r = .ok () → h'.expected.toNat ≤ h'.packet.length)
          (s_loraGuard _) (loraGuard_post _) ?_
        intro u h' hi' hq
        refine Safe_at_bind_of h' (at_rxCb h' hi' (by rw [← hi'.1]; exact hq rfl)) (fun _ h2 hi2 => ?_)
        exact (by safe_mod : SafeM cap _).s h2 hi2
      · intro _
        apply SafeI_ite
        · intro _
          repeat (first | exact s_txCb | safe_step | safe_mod | dsimp only)
        · intro _
          apply SafeI_ite
          · intro _
            -- frequency hopping: the index is clamped into the registered list
            cases hf : h.freqs with
            | none => dsimp only; exact SafeI_pure _
            | some list =>
              dsimp only
              obtain ⟨h1, h2⟩ := hh.2.1 list hf
              have hidx : (if h.curFreq ≥ h.freqLen then (0 : UInt8) else h.curFreq).toNat < list.length := by
                split
                · simp; omega
                · rename_i hc
                  have hc' : ¬h.freqLen ≤ h.curFreq := hc
                  rw [UInt8.le_iff_toNat_le] at hc'
                  omega
              obtain ⟨x, hx⟩ := getElem?_some_of_lt list _ hidx
              apply SafeI_bind (by safe_mod); intro _
              rw [hx]
              dsimp only
              repeat (first | exact s_setFrequency _ | safe_step | safe_mod | dsimp only)
          · intro _; exact SafeI_pure _

theorem u16_ofNat_toNat_le (n : Nat) : (UInt16.ofNat n).toNat ≤ n := by
  simp only [UInt16.toNat_ofNat']
  exact Nat.mod_le _ _

theorem s_withRemaining (dl : UInt16) (hdl : dl.toNat ≤ cap) : SafeM cap (fskOokTxWithRemaining dl) := by
  unfold fskOokTxWithRemaining
  dsimp only
  apply SafeI_bind (SafeI_modH _ (fun h0 hi => ⟨hi.1, hi.2.1, by
    show (UInt16.ofNat (if dl.toNat > Gen.FIFO_SIZE_FSK then Gen.FIFO_SIZE_FSK else dl.toNat)).toNat ≤ cap
    have := u16_ofNat_toNat_le (if dl.toNat > Gen.FIFO_SIZE_FSK then Gen.FIFO_SIZE_FSK else dl.toNat)
    exact Nat.le_trans this (by split <;> omega)⟩)); intro _
  apply SafeI_getH_bind; intro h hh
  have : (if dl.toNat > Gen.FIFO_SIZE_FSK then Gen.FIFO_SIZE_FSK else dl.toNat) ≤ h.packet.length := by
    rw [hh.1]; split <;> omega
  rw [if_pos this]
  exact SafeI_bwrite _ _

theorem s_fskTx (data : List UInt8) : SafeM cap (fskOokTxSetForTransmission data) := by
  unfold fskOokTxSetForTransmission
  apply SafeI_bind s_checkFskOok; intro _
  apply SafeI_getH_bind; intro h hh
  dsimp only
  apply SafeI_ite
  · intro _; exact SafeI_fail _
  · intro _
    apply SafeI_ite
    · intro _; exact SafeI_fail _
    · intro _
      apply SafeI_ite
      · intro _; exact SafeI_fail _
      · intro hfit
        rw [hh.1] at hfit
        apply SafeI_ite
        · intro hv
          rw [if_pos hv] at hfit
          apply SafeI_bind (s_packetStore 0 _ (by omega)); intro _
          apply SafeI_bind (s_packetCopy 1 _ (by omega)); intro _
          exact s_withRemaining _ (by have := u16_ofNat_toNat_le (data.length + 1); omega)
        · intro hv
          rw [if_neg hv] at hfit
          apply SafeI_bind (s_packetCopy 0 _ (by omega)); intro _
          exact s_withRemaining _ (by have := u16_ofNat_toNat_le data.length; omega)

theorem s_fskTxAddr (data : List UInt8) (a : UInt8) : SafeM cap (fskOokTxSetForTransmissionWithAddress data a) := by
  unfold fskOokTxSetForTransmissionWithAddress
  apply SafeI_bind s_checkFskOok; intro _
  apply SafeI_getH_bind; intro h hh
  dsimp only
  apply SafeI_ite
  · intro _; exact SafeI_fail _
  · intro _
    apply SafeI_ite
    · intro _; exact SafeI_fail _
    · intro _
      apply SafeI_ite
      · intro _; exact SafeI_fail _
      · intro hfit
        rw [hh.1] at hfit
        apply SafeI_ite
        · intro hv
          rw [if_pos hv] at hfit
          apply SafeI_bind (s_packetStore 0 _ (by omega)); intro _
          apply SafeI_bind (s_packetStore 1 _ (by omega)); intro _
          apply SafeI_bind (s_packetCopy 2 _ (by omega)); intro _
          exact s_withRemaining _ (by have := u16_ofNat_toNat_le (data.length + 2); omega)
        · intro hv
          rw [if_neg hv] at hfit
          apply SafeI_bind (s_packetStore 0 _ (by omega)); intro _
          apply SafeI_bind (s_packetCopy 1 _ (by omega)); intro _
          exact s_withRemaining _ (by have := u16_ofNat_toNat_le (data.length + 1); omega)

theorem s_irq (fuel : Nat) : SafeM cap (handleInterrupt fuel) := by
  unfold handleInterrupt
  repeat (first | exact s_loraIrq | exact s_fskIrq _ | safe_step | (apply DM.SafeI_ite <;> intro _) | dsimp only)

theorem s_calibrateLoop (fuel : Nat) : SafeM cap (calibrateLoop fuel) := by
  induction fuel with
  | zero => unfold calibrateLoop; safe_ubx
  | succ n ih =>
    unfold calibrateLoop
    apply SafeI_bind (SafeI_rread _); intro v
    apply SafeI_ite
    · intro _; exact ih
    · intro _; exact SafeI_pure _

macro "safe1" : tactic => `(tactic| repeat (first
  | exact s_checkModulation _ | exact s_checkFskOok | exact s_appendRegister _ _ _ | exact s_getFrequency
  | exact s_setFrequency _ | exact s_fskTx _ | exact s_fskTxAddr _ _ | exact s_calibrateLoop _ | exact s_irq _
  | exact s_setActiveModem _ _
  | safe_step | safe_mod | safe_ubx | (apply DM.SafeI_ite <;> intro _) | split | dsimp only))

theorem s_setLdro (e : Bool) : SafeM cap (loraSetLowDatarateOptimization e) := by unfold loraSetLowDatarateOptimization; safe1
theorem s_getBw : SafeM cap loraGetBandwidth := by unfold loraGetBandwidth; safe1
theorem s_reload : SafeM cap reloadLowDatarateOptimization := by
  unfold reloadLowDatarateOptimization
  repeat (first | exact s_getBw | exact s_setLdro _ | safe_step | dsimp only)
theorem s_snr : SafeM cap loraRxGetPacketSnr := by unfold loraRxGetPacketSnr; safe1
theorem s_txSetOcp (e : Bool) (m : UInt8) : SafeM cap (txSetOcp e m) := by unfold txSetOcp; safe1

macro "safe2" : tactic => `(tactic| repeat (first
  | exact s_setLdro _ | exact s_getBw | exact s_reload | exact s_snr | exact s_txSetOcp _ _
  | exact s_checkModulation _ | exact s_checkFskOok | exact s_appendRegister _ _ _ | exact s_getFrequency
  | exact s_setFrequency _ | exact s_fskTx _ | exact s_fskTxAddr _ _ | exact s_calibrateLoop _ | exact s_irq _
  | exact s_setActiveModem _ _
  | safe_step | safe_mod | safe_ubx | (apply DM.SafeI_ite <;> intro _) | split | dsimp only))

/-- the caller's side of `sx127x_lora_set_frequency_hopping`: the array has at least
    `frequencies_length` entries (what the C prototype cannot express) -/
def Api.ListsFit : Api → Prop
  | .loraSetFrequencyHopping _ (some l) len => len.toNat ≤ l.length
  | _ => True

theorem s_hopping (p : UInt8) (l : List UInt64) (len : UInt8) (hfit : len.toNat ≤ l.length) :
    SafeM cap (loraSetFrequencyHopping p (some l) len) := by
  unfold loraSetFrequencyHopping
  apply SafeI_bind (s_checkModulation _); intro _
  dsimp only
  apply SafeI_ite
  · intro _; exact SafeI_fail _
  · intro hlen
    apply SafeI_bind (SafeI_swrite _ _); intro _
    apply SafeI_modH
    intro h hi
    refine ⟨hi.1, ?_, hi.2.2⟩
    intro l' hl'
    have : l' = l := by
      have : some l = some l' := hl'
      cases this; rfl
    subst this
    have : len.toNat ≠ 0 := by
      intro e
      apply hlen
      exact UInt8.toNat_inj.mp (by simpa using e)
    exact ⟨by show 1 ≤ len.toNat; omega, hfit⟩

theorem s_create : ∀ h, (Model.create cap h).Safe (α := Unit) memBad (CbLen cap) (HInv cap) := by
  intro h
  unfold Model.create
  have hz : HInv cap (zeroHandle cap) := ⟨by simp [zeroHandle], fun l e => by simp [zeroHandle] at e, Nat.zero_le _⟩
  have hf : HInv cap (freshHandle cap) := ⟨by simp [freshHandle], fun l e => by simp [freshHandle] at e, Nat.zero_le _⟩
  have : SafeM cap (do let version ← rread Gen.REGVERSION
                       if version ≠ u8 Gen.SX127x_VERSION then fail Gen.SX127X_ERR_INVALID_VERSION else setH (freshHandle cap)) := by
    apply SafeI_bind (SafeI_rread _); intro v
    apply SafeI_ite
    · intro _; exact SafeI_fail _
    · intro _; exact SafeI_setH _ hf
  -- `setH (zeroHandle cap)` first: the old handle does not matter
  exact Safe_setH_bind _ _ _ (this.s _ hz)

/-- every API function other than `create`, from a handle that satisfies the invariant -/
theorem s_api (fuel : Nat) (a : Api) (hc : a.isCreate = false) (hl : a.ListsFit) : SafeM cap (Api.prog cap fuel a) := by
  cases a <;> unfold Api.prog
  case create => exact absurd hc (by decide)
  case loraSetFrequencyHopping p f l =>
    cases f with
    | none => unfold loraSetFrequencyHopping; safe2
    | some list => exact SafeI_bind (s_hopping p list l hl) (fun _ => SafeI_pure _)
  all_goals (
    first
    | (unfold setOpmod; safe2; done)
    | (unfold loraResetFifo; safe2; done)
    | (unfold rxSetLnaGain; safe2; done)
    | (unfold rxSetLnaBoostHf; safe2; done)
    | (unfold loraSetBandwidth; safe2; done)
    | (unfold loraSetModemConfig2; safe2; done)
    | (unfold loraSetSyncword; safe2; done)
    | (unfold setPreambleLength; safe2; done)
    | (unfold loraSetImplicitHeader; safe2; done)
    | (unfold loraTxSetExplicitHeader; safe2; done)
    | (unfold rxGetPacketRssi; safe2; done)
    | (unfold rxGetFrequencyError; safe2; done)
    | (unfold dumpRegisters; safe2; done)
    | (unfold txSetPaConfig; safe2; done)
    | (unfold loraTxSetForTransmission; safe2; done)
    | (unfold loraSetPpmOffset; safe2; done)
    | (unfold fskOokTxStartBeacon; safe2; done)
    | (unfold fskOokTxStopBeacon; safe2; done)
    | (unfold fskOokSetBitrate; safe2; done)
    | (unfold fskSetFdev; safe2; done)
    | (unfold ookRxSetPeakMode; safe2; done)
    | (unfold ookRxSetFixedMode; safe2; done)
    | (unfold ookRxSetAvgMode; safe2; done)
    | (unfold fskOokRxSetCollisionRestart; safe2; done)
    | (unfold fskOokRxSetAfcAuto; safe2; done)
    | (unfold fskOokRxSetAfcBandwidth; safe2; done)
    | (unfold fskOokRxSetBandwidth; safe2; done)
    | (unfold fskOokRxSetTrigger; safe2; done)
    | (unfold fskOokSetSyncword; safe2; done)
    | (unfold fskOokRxSetRssiConfig; safe2; done)
    | (unfold fskOokSetPacketEncoding; safe2; done)
    | (unfold fskOokSetCrc; safe2; done)
    | (unfold fskOokSetPacketFormat; safe2; done)
    | (unfold fskOokSetAddressFiltering; safe2; done)
    | (unfold fskSetDataShaping; safe2; done)
    | (unfold ookSetDataShaping; safe2; done)
    | (unfold fskOokSetPreambleType; safe2; done)
    | (unfold fskOokRxSetPreambleDetector; safe2; done)
    | (unfold fskOokRxCalibrate; safe2; done)
    | (unfold fskOokGetRawTemperature; safe2; done)
    | (unfold fskOokSetTempMonitor; safe2; done)
    | (unfold Model.writeRegister; safe2; done)
    | (safe2; done))

end Sx
