import Sx.Lemmas.Struct
import Sx.Lemmas.Exec
/-
  The SPI contract, driver side (C19): every request any API function can issue — for every
  handle, every argument, every answer of chip and bus — is valid for the documented SPI
  interface and stays inside the register map.
-/
namespace Sx
open Sx.Model DM

/-- register reads and writes carry 1 to 4 bytes, buffer transfers at most 2047 bytes, and every
    transfer stays inside the register map 0x00..0x70 (a burst at address 0 stays at the FIFO) -/
def ContractReq : Req → Prop
  | .sread reg n => 1 ≤ n ∧ n ≤ 4 ∧ 1 ≤ reg ∧ reg + n ≤ 0x71
  | .rread reg => reg ≤ 0x70
  | .swrite reg d => 1 ≤ d.length ∧ d.length ≤ 4 ∧ reg + d.length ≤ 0x71 ∧ (reg ≠ 0 ∨ d.length ≤ 1)
  | .bwrite reg d => d.length ≤ 2047 ∧ (reg = 0 ∨ (2 ≤ reg ∧ reg + d.length ≤ 0x71))
  | .bread reg n => n ≤ 2047 ∧ (reg = 0 ∨ (1 ≤ reg ∧ reg + n ≤ 0x71))
  | .rawbread reg n => n ≤ 2047 ∧ (reg = 0 ∨ (1 ≤ reg ∧ reg + n ≤ 0x71))

theorem ContractReq.coh {r : Req} (h : ContractReq r) : CohReq r := by
  cases r with
  | sread reg n => exact h.2.1
  | rread reg => trivial
  | swrite reg d => exact h.2.2.2
  | bwrite reg d =>
    show reg ≠ 1
    rcases h.2 with h0 | h2
    · omega
    · omega
  | bread reg n => trivial
  | rawbread reg n => trivial

theorem length_rds (m : Mem) (a n : Nat) : (m.rds a n).length = n := by simp [Mem.rds]

attribute [local irreducible] DM.rread DM.sread DM.swrite DM.bwrite DM.bread DM.rawbread DM.cb DM.modH DM.setH
  DM.getH DM.fail DM.ub DM.attempt DM.pure' DM.bind' DM.ofExcept
  freqOfRaw loraFreqError fskFreqError ppmFloat beaconTimers fskBitrateValue ookBitrateValue fdevValue
  calculateBwRegister rssiRefine snrOf bandwidthOfCode F.lt F.gt F.le F.toSInt F.toUInt F.ofBits32 F.div F.ofNat

/-- a leaf: the request's contract follows by evaluation or linear arithmetic from the guards
    on the path -/
macro "ct_leaf" : tactic => `(tactic| first
  | (apply DM.All_rread; show _ ≤ 0x70; first | decide | omega)
  | (apply DM.All_sread; show 1 ≤ _ ∧ _ ≤ 4 ∧ 1 ≤ _ ∧ _ + _ ≤ 0x71; decide)
  | (apply DM.All_swrite; show 1 ≤ _ ∧ _ ≤ 4 ∧ _ + _ ≤ 0x71 ∧ (_ ≠ 0 ∨ _ ≤ 1); first | decide | (simp; done) | (simp; decide) | (simp; omega))
  | (apply DM.All_bwrite; show _ ≤ 2047 ∧ (_ = 0 ∨ (2 ≤ _ ∧ _ + _ ≤ 0x71)); first | decide | (simp [length_rds]; omega) | (refine ⟨?_, Or.inl rfl⟩; simp [length_rds]; omega))
  | (apply DM.All_bread; show _ ≤ 2047 ∧ (_ = 0 ∨ (1 ≤ _ ∧ _ + _ ≤ 0x71)); first | decide | (refine ⟨?_, Or.inl rfl⟩; omega))
  | (apply DM.All_rawbread; show _ ≤ 2047 ∧ (_ = 0 ∨ (1 ≤ _ ∧ _ + _ ≤ 0x71)); decide))

theorem ct_checkModulation (m : Nat) : DM.All ContractReq (checkModulation m) := by
  unfold checkModulation; repeat (first | dm_step | ct_leaf | split)
theorem ct_checkFskOok : DM.All ContractReq checkFskOok := by
  unfold checkFskOok; repeat (first | dm_step | ct_leaf | split)
theorem ct_appendRegister (reg : Nat) (v m : UInt8) (h : 1 ≤ reg ∧ reg ≤ 0x70) : DM.All ContractReq (appendRegister reg v m) := by
  unfold appendRegister
  apply DM.All_bind
  · apply DM.All_rread; exact h.2
  · intro _; apply DM.All_swrite
    show 1 ≤ 1 ∧ 1 ≤ 4 ∧ reg + 1 ≤ 0x71 ∧ (reg ≠ 0 ∨ 1 ≤ 1)
    omega

macro "ct0" : tactic => `(tactic| repeat (first
  | exact ct_checkModulation _ | exact ct_checkFskOok | (apply ct_appendRegister; decide)
  | dm_step | ct_leaf | split | dsimp only))

theorem ct_setLdro (e : Bool) : DM.All ContractReq (loraSetLowDatarateOptimization e) := by
  unfold loraSetLowDatarateOptimization; ct0
theorem ct_getBw : DM.All ContractReq loraGetBandwidth := by unfold loraGetBandwidth; ct0
theorem ct_reloadLdro : DM.All ContractReq reloadLowDatarateOptimization := by
  unfold reloadLowDatarateOptimization
  repeat (first | exact ct_getBw | exact ct_setLdro _ | dm_step | ct_leaf | split | dsimp only)
theorem ct_fixedLen : DM.All ContractReq fskOokReadFixedPacketLength := by unfold fskOokReadFixedPacketLength; ct0
theorem ct_addrFilt : DM.All ContractReq fskOokIsAddressFiltered := by unfold fskOokIsAddressFiltered; ct0
theorem ct_packetStore (i : Nat) (v : UInt8) : DM.All ContractReq (packetStore i v) := by unfold packetStore; ct0
theorem ct_packetCopy (i : Nat) (d : List UInt8) : DM.All ContractReq (packetCopy i d) := by unfold packetCopy; ct0
theorem ct_drainLoop (fuel : Nat) : DM.All ContractReq (drainLoop fuel) := by
  induction fuel with
  | zero => unfold drainLoop; ct0
  | succ n ih =>
    unfold drainLoop
    repeat (first | exact ih | exact ct_packetStore _ _ | dm_step | ct_leaf | split | dsimp only)
theorem ct_header : DM.All ContractReq readPayloadHeader := by
  unfold readPayloadHeader
  repeat (first | exact ct_fixedLen | exact ct_addrFilt | dm_step | ct_leaf | split | dsimp only)


theorem ct_batch (fuel : Nat) (b : Bool) : DM.All ContractReq (fskOokReadPayloadBatch fuel b) := by
  unfold fskOokReadPayloadBatch
  apply DM.All_bind ct_header
  intro hdr
  cases hdr with
  | none => exact DM.All_pure _
  | some consumed =>
  dsimp only
  apply DM.All_bind DM.All_getH
  intro h
  split
  · exact DM.All_pure _
  · split
    · exact DM.All_fail _
    split
    · repeat (first | exact ct_packetCopy _ _ | dm_step | ct_leaf | split | dsimp only)
    · split
      · rename_i hc
        have hrem : h.expected.toNat ≤ 64 := by
          have := hc.2
          have h64 : Gen.FIFO_SIZE_FSK = 64 := by decide
          omega
        repeat (first | exact ct_packetCopy _ _ | dm_step | (apply DM.All_bread; exact ⟨by omega, Or.inl (by decide)⟩) | split | dsimp only)
      · exact ct_drainLoop _

theorem ct_getRssi : DM.All ContractReq fskOokGetRssi := by unfold fskOokGetRssi; ct0
theorem ct_rxCb : DM.All ContractReq rxCallback := by unfold rxCallback; ct0
theorem ct_txCb : DM.All ContractReq txCallback := by unfold txCallback; ct0

theorem u8_toNat_le (x : UInt8) : x.toNat ≤ 255 := by have := x.toNat_lt; omega

theorem ct_fskIrq (fuel : Nat) : DM.All ContractReq (fskOokHandleInterrupt fuel) := by
  unfold fskOokHandleInterrupt
  repeat (first
    | exact ct_batch _ _ | exact ct_getRssi | exact ct_rxCb | exact ct_txCb | dm_step
    | (apply DM.All_bwrite; exact ⟨by rw [length_rds]; exact Nat.le_trans (u8_toNat_le _) (by decide), Or.inl (by decide)⟩)
    | ct_leaf | split | dsimp only)

theorem ct_loraRead : DM.All ContractReq loraRxReadPayload := by
  unfold loraRxReadPayload
  repeat (first
    | exact ct_packetCopy _ _ | exact ct_checkModulation _ | dm_step
    | (apply DM.All_bread; exact ⟨Nat.le_trans (u8_toNat_le _) (by decide), Or.inl (by decide)⟩)
    | ct_leaf | split | dsimp only)

theorem frfOf_length (f : UInt64) (d : List UInt8) (h : frfOf f = some d) : d.length = 3 := by
  unfold frfOf at h
  dsimp only at h
  split at h
  · cases h; rfl
  · cases h

theorem ct_setFreq (f : UInt64) : DM.All ContractReq (setFrequency f) := by
  unfold setFrequency
  split
  · rename_i d hd
    have := frfOf_length f d hd
    apply DM.All_swrite
    show 1 ≤ d.length ∧ d.length ≤ 4 ∧ Gen.REGFRFMSB + d.length ≤ 0x71 ∧ (Gen.REGFRFMSB ≠ 0 ∨ d.length ≤ 1)
    rw [this]; decide
  · exact DM.All_ub _
theorem ct_getFreq : DM.All ContractReq getFrequency := by unfold getFrequency; ct0
theorem ct_loraIrq : DM.All ContractReq loraHandleInterrupt := by
  unfold loraHandleInterrupt
  repeat (first | exact ct_loraRead | exact ct_setFreq _ | exact ct_rxCb | exact ct_txCb | dm_step | ct_leaf | split | dsimp only)
theorem ct_irq (fuel : Nat) : DM.All ContractReq (handleInterrupt fuel) := by
  unfold handleInterrupt
  repeat (first | exact ct_loraIrq | exact ct_fskIrq _ | dm_step | split | dsimp only)


macro "ct1" : tactic => `(tactic| repeat (first
  | exact ct_checkModulation _ | exact ct_checkFskOok | (apply ct_appendRegister; decide)
  | exact ct_setLdro _ | exact ct_getBw | exact ct_reloadLdro | exact ct_packetStore _ _ | exact ct_packetCopy _ _
  | exact ct_setFreq _ | exact ct_getFreq | exact ct_irq _
  | dm_step | ct_leaf | split | dsimp only))

theorem ct_create (cap : Nat) : DM.All ContractReq (Model.create cap) := by unfold Model.create; ct1
theorem ct_setOpmod (o m : Nat) : DM.All ContractReq (setOpmod o m) := by unfold setOpmod; ct1
theorem ct_loraResetFifo : DM.All ContractReq loraResetFifo := by unfold loraResetFifo; ct1
theorem ct_rxSetLnaGain (g : Nat) : DM.All ContractReq (rxSetLnaGain g) := by unfold rxSetLnaGain; ct1
theorem ct_rxSetLnaBoostHf (e : Bool) : DM.All ContractReq (rxSetLnaBoostHf e) := by unfold rxSetLnaBoostHf; ct1
theorem ct_loraSetBandwidth (b : Nat) : DM.All ContractReq (loraSetBandwidth b) := by unfold loraSetBandwidth; ct1
theorem ct_loraSetModemConfig2 (s : Nat) : DM.All ContractReq (loraSetModemConfig2 s) := by unfold loraSetModemConfig2; ct1
theorem ct_loraSetSyncword (v : UInt8) : DM.All ContractReq (loraSetSyncword v) := by unfold loraSetSyncword; ct1
theorem ct_setPreambleLength (v : UInt16) : DM.All ContractReq (setPreambleLength v) := by unfold setPreambleLength; ct1
theorem ct_loraSetImplicitHeader (h : Option (UInt8 × Bool × Nat)) : DM.All ContractReq (loraSetImplicitHeader h) := by
  unfold loraSetImplicitHeader; ct1
theorem ct_loraTxSetExplicitHeader (h : Option (Bool × Nat)) : DM.All ContractReq (loraTxSetExplicitHeader h) := by
  unfold loraTxSetExplicitHeader; ct1
theorem ct_loraSetFrequencyHopping (p : UInt8) (f : Option (List UInt64)) (l : UInt8) :
    DM.All ContractReq (loraSetFrequencyHopping p f l) := by unfold loraSetFrequencyHopping; ct1
theorem ct_loraRxGetPacketSnr : DM.All ContractReq loraRxGetPacketSnr := by unfold loraRxGetPacketSnr; ct1
theorem ct_rxGetPacketRssi : DM.All ContractReq rxGetPacketRssi := by
  unfold rxGetPacketRssi
  repeat (first | exact ct_loraRxGetPacketSnr | exact ct_getFreq | dm_step | ct_leaf | split | dsimp only)
theorem ct_rxGetFrequencyError : DM.All ContractReq rxGetFrequencyError := by unfold rxGetFrequencyError; ct1
theorem ct_dumpRegisters : DM.All ContractReq dumpRegisters := by unfold dumpRegisters; ct1
theorem ct_txSetOcp (e : Bool) (m : UInt8) : DM.All ContractReq (txSetOcp e m) := by unfold txSetOcp; ct1
theorem ct_txSetPaConfig (p : Nat) (w : Int) : DM.All ContractReq (txSetPaConfig p w) := by
  unfold txSetPaConfig
  repeat (first | exact ct_txSetOcp _ _ | dm_step | ct_leaf | split | dsimp only)
theorem ct_loraTxSetForTransmission (d : List UInt8) (hd : d.length ≤ 255) : DM.All ContractReq (loraTxSetForTransmission d) := by
  unfold loraTxSetForTransmission
  repeat (first
    | exact ct_checkModulation _ | dm_step
    | (apply DM.All_bwrite; exact ⟨by omega, Or.inl (by decide)⟩)
    | ct_leaf | split | dsimp only)
theorem ct_loraSetPpmOffset (e : Int) : DM.All ContractReq (loraSetPpmOffset e) := by
  unfold loraSetPpmOffset
  repeat (first
    | exact ct_checkModulation _ | exact ct_getFreq | dm_step
    | (apply DM.All_swrite; exact ⟨by simp, by simp, by simp, Or.inl (by decide)⟩)
    | split | dsimp only)
theorem ct_fskOokTxWithRemaining (n : UInt16) : DM.All ContractReq (fskOokTxWithRemaining n) := by
  unfold fskOokTxWithRemaining
  dsimp only
  have h64 : Gen.FIFO_SIZE_FSK = 64 := by decide
  have hle : (if n.toNat > Gen.FIFO_SIZE_FSK then Gen.FIFO_SIZE_FSK else n.toNat) ≤ 64 := by
    split <;> omega
  repeat (first
    | dm_step
    | (apply DM.All_bwrite; exact ⟨by rw [length_rds]; omega, Or.inl (by decide)⟩)
    | split | dsimp only)
theorem ct_fskOokTxSetForTransmission (d : List UInt8) : DM.All ContractReq (fskOokTxSetForTransmission d) := by
  unfold fskOokTxSetForTransmission
  repeat (first | exact ct_fskOokTxWithRemaining _ | exact ct_packetStore _ _ | exact ct_packetCopy _ _ | exact ct_checkFskOok | dm_step | ct_leaf | split | dsimp only)
theorem ct_fskOokTxSetForTransmissionWithAddress (d : List UInt8) (a : UInt8) :
    DM.All ContractReq (fskOokTxSetForTransmissionWithAddress d a) := by
  unfold fskOokTxSetForTransmissionWithAddress
  repeat (first | exact ct_fskOokTxWithRemaining _ | exact ct_packetStore _ _ | exact ct_packetCopy _ _ | exact ct_checkFskOok | dm_step | ct_leaf | split | dsimp only)
theorem ct_fskOokTxStartBeacon (d : List UInt8) (i : Nat) : DM.All ContractReq (fskOokTxStartBeacon d i) := by
  unfold fskOokTxStartBeacon
  repeat (first | exact ct_fskOokTxSetForTransmission _ | exact ct_checkFskOok | (apply ct_appendRegister; decide) | dm_step | ct_leaf | split | dsimp only)
theorem ct_fskOokTxStopBeacon : DM.All ContractReq fskOokTxStopBeacon := by unfold fskOokTxStopBeacon; ct1
theorem ct_fskOokSetBitrate (b : F) : DM.All ContractReq (fskOokSetBitrate b) := by unfold fskOokSetBitrate; ct1
theorem ct_fskSetFdev (b : F) : DM.All ContractReq (fskSetFdev b) := by unfold fskSetFdev; ct1
theorem ct_ookRxSetPeakMode (s : Nat) (f : UInt8) (d : Nat) : DM.All ContractReq (ookRxSetPeakMode s f d) := by
  unfold ookRxSetPeakMode; ct1
theorem ct_ookRxSetFixedMode (t : UInt8) : DM.All ContractReq (ookRxSetFixedMode t) := by unfold ookRxSetFixedMode; ct1
theorem ct_ookRxSetAvgMode (o t : Nat) : DM.All ContractReq (ookRxSetAvgMode o t) := by unfold ookRxSetAvgMode; ct1
theorem ct_fskOokRxSetCollisionRestart (e : Bool) (t : UInt8) : DM.All ContractReq (fskOokRxSetCollisionRestart e t) := by
  unfold fskOokRxSetCollisionRestart; ct1
theorem ct_fskOokRxSetAfcAuto (a : Bool) : DM.All ContractReq (fskOokRxSetAfcAuto a) := by unfold fskOokRxSetAfcAuto; ct1
theorem ct_fskOokRxSetAfcBandwidth (b : F) : DM.All ContractReq (fskOokRxSetAfcBandwidth b) := by
  unfold fskOokRxSetAfcBandwidth; ct1
theorem ct_fskOokRxSetBandwidth (b : F) : DM.All ContractReq (fskOokRxSetBandwidth b) := by unfold fskOokRxSetBandwidth; ct1
theorem ct_fskOokRxSetTrigger (t : Nat) : DM.All ContractReq (fskOokRxSetTrigger t) := by unfold fskOokRxSetTrigger; ct1
theorem ct_fskOokSetSyncword (s : List UInt8) : DM.All ContractReq (fskOokSetSyncword s) := by
  unfold fskOokSetSyncword
  repeat (first
    | exact ct_checkFskOok | (apply ct_appendRegister; decide) | dm_step
    | (apply DM.All_bwrite; show _ ≤ 2047 ∧ (_ = 0 ∨ (2 ≤ _ ∧ _ + _ ≤ 0x71)); refine ⟨by omega, Or.inr ⟨by decide, ?_⟩⟩; show 0x28 + _ ≤ 0x71; omega)
    | ct_leaf | split | dsimp only)
theorem ct_fskOokRxSetRssiConfig (s : Nat) (o : Int) : DM.All ContractReq (fskOokRxSetRssiConfig s o) := by
  unfold fskOokRxSetRssiConfig; ct1
theorem ct_fskOokSetPacketEncoding (e : Nat) : DM.All ContractReq (fskOokSetPacketEncoding e) := by
  unfold fskOokSetPacketEncoding; ct1
theorem ct_fskOokSetCrc (c : Nat) : DM.All ContractReq (fskOokSetCrc c) := by unfold fskOokSetCrc; ct1
theorem ct_fskOokSetPacketFormat (f : Nat) (l : UInt16) : DM.All ContractReq (fskOokSetPacketFormat f l) := by
  unfold fskOokSetPacketFormat; ct1
theorem ct_fskOokSetAddressFiltering (t : Nat) (n b : UInt8) : DM.All ContractReq (fskOokSetAddressFiltering t n b) := by
  unfold fskOokSetAddressFiltering; ct1
theorem ct_fskSetDataShaping (s r : Nat) : DM.All ContractReq (fskSetDataShaping s r) := by unfold fskSetDataShaping; ct1
theorem ct_ookSetDataShaping (s r : Nat) : DM.All ContractReq (ookSetDataShaping s r) := by unfold ookSetDataShaping; ct1
theorem ct_fskOokSetPreambleType (t : Nat) : DM.All ContractReq (fskOokSetPreambleType t) := by unfold fskOokSetPreambleType; ct1
theorem ct_fskOokRxSetPreambleDetector (e : Bool) (s t : UInt8) : DM.All ContractReq (fskOokRxSetPreambleDetector e s t) := by
  unfold fskOokRxSetPreambleDetector; ct1
theorem ct_calibrateLoop (fuel : Nat) : DM.All ContractReq (calibrateLoop fuel) := by
  induction fuel with
  | zero => unfold calibrateLoop; ct1
  | succ n ih => unfold calibrateLoop; repeat (first | exact ih | dm_step | ct_leaf | split | dsimp only)
theorem ct_fskOokRxCalibrate (fuel : Nat) : DM.All ContractReq (fskOokRxCalibrate fuel) := by
  unfold fskOokRxCalibrate
  repeat (first | exact ct_calibrateLoop _ | exact ct_checkFskOok | (apply ct_appendRegister; decide) | dm_step | ct_leaf | split | dsimp only)
theorem ct_fskOokGetRawTemperature : DM.All ContractReq fskOokGetRawTemperature := by unfold fskOokGetRawTemperature; ct1
theorem ct_fskOokSetTempMonitor (e : Bool) : DM.All ContractReq (fskOokSetTempMonitor e) := by unfold fskOokSetTempMonitor; ct1
theorem ct_writeRegister (r : Nat) (v : UInt8) (hr : r ≤ 0x70) : DM.All ContractReq (Model.writeRegister r v) := by
  unfold Model.writeRegister
  apply DM.All_swrite
  show 1 ≤ 1 ∧ 1 ≤ 4 ∧ r + 1 ≤ 0x71 ∧ (r ≠ 0 ∨ 1 ≤ 1)
  omega

/-- arguments within the documented C types and the register map -/
def Api.Valid : Api → Prop
  | .readRegister r => r ≤ 0x70
  | .writeRegister r _ => r ≤ 0x70
  | .loraTxSetForTransmission d => d.length ≤ 255      -- `uint8_t data_length`
  | _ => True

/-- every request of every API call is within the SPI contract -/
theorem contract_api (cap fuel : Nat) (a : Api) (hv : a.Valid) : DM.All ContractReq (Api.prog cap fuel a) := by
  cases a <;> unfold Api.prog <;>
  repeat (first
    | exact ct_create _ | exact ct_setOpmod _ _ | exact ct_setFreq _ | exact ct_getFreq | exact ct_loraResetFifo
    | exact ct_rxSetLnaGain _ | exact ct_rxSetLnaBoostHf _ | exact ct_loraSetBandwidth _ | exact ct_getBw
    | exact ct_loraSetModemConfig2 _ | exact ct_setLdro _ | exact ct_loraSetSyncword _ | exact ct_setPreambleLength _
    | exact ct_loraSetImplicitHeader _ | exact ct_loraTxSetExplicitHeader _ | exact ct_loraSetFrequencyHopping _ _ _
    | exact ct_rxGetPacketRssi | exact ct_loraRxGetPacketSnr | exact ct_rxGetFrequencyError | exact ct_dumpRegisters
    | exact ct_txSetPaConfig _ _ | exact ct_txSetOcp _ _ | exact ct_loraTxSetForTransmission _ hv | exact ct_loraSetPpmOffset _ | exact ct_loraSetPpmOffset _
    | exact ct_fskOokTxSetForTransmission _ | exact ct_fskOokTxSetForTransmissionWithAddress _ _
    | exact ct_fskOokTxStartBeacon _ _ | exact ct_fskOokTxStopBeacon | exact ct_fskOokSetBitrate _ | exact ct_fskSetFdev _
    | exact ct_ookRxSetPeakMode _ _ _ | exact ct_ookRxSetFixedMode _ | exact ct_ookRxSetAvgMode _ _
    | exact ct_fskOokRxSetCollisionRestart _ _ | exact ct_fskOokRxSetAfcAuto _ | exact ct_fskOokRxSetAfcBandwidth _
    | exact ct_fskOokRxSetBandwidth _ | exact ct_fskOokRxSetTrigger _ | exact ct_fskOokSetSyncword _
    | exact ct_fskOokRxSetRssiConfig _ _ | exact ct_fskOokSetPacketEncoding _ | exact ct_fskOokSetCrc _
    | exact ct_fskOokSetPacketFormat _ _ | exact ct_fskOokSetAddressFiltering _ _ _ | exact ct_fskSetDataShaping _ _
    | exact ct_ookSetDataShaping _ _ | exact ct_fskOokSetPreambleType _ | exact ct_fskOokRxSetPreambleDetector _ _ _
    | exact ct_fskOokRxCalibrate _ | exact ct_fskOokGetRawTemperature | exact ct_fskOokSetTempMonitor _
    | exact ct_writeRegister _ _ hv | exact ct_irq _
    | (apply DM.All_rread; exact hv)
    | dm_step | ct_leaf | split | dsimp only)

end Sx
