import Sx.Api
import Sx.Lemmas.Struct
/-
  Structure of driver programs with respect to failing transfers (C11).

  * `Prog.FailFast ex p`: at every request of `p` (except those in `ex`) the continuation for a
    failed transfer is `return code;` — no further request, the code handed to the caller.
  * `Prog.NoRx p`: `p` never invokes the receive callback.
  * `Prog.FailNoRx p`: after any failed transfer, `p` never invokes the receive callback.
  * `Prog.ErrKeeps h p`: whenever `p` ends with an error, the handle is `h`.
-/
namespace Sx

variable {α β : Type}

def Prog.FailFast (ex : Req → Prop) : Prog (Except Code α × Handle) → Prop
  | .ret _ => True
  | .ub _ => True
  | .sread reg n k => (ex (.sread reg n) ∨ ∀ c, ∃ h, k (.error c) = .ret (.error c, h)) ∧ ∀ r, (k r).FailFast ex
  | .rread reg k => (ex (.rread reg) ∨ ∀ c, ∃ h, k (.error c) = .ret (.error c, h)) ∧ ∀ r, (k r).FailFast ex
  | .swrite reg d k => (ex (.swrite reg d) ∨ ∀ c, ∃ h, k (.error c) = .ret (.error c, h)) ∧ ∀ r, (k r).FailFast ex
  | .bwrite reg d k => (ex (.bwrite reg d) ∨ ∀ c, ∃ h, k (.error c) = .ret (.error c, h)) ∧ ∀ r, (k r).FailFast ex
  | .bread reg n k => (ex (.bread reg n) ∨ ∀ c, ∃ h, k (.error c) = .ret (.error c, h)) ∧ ∀ r, (k r).FailFast ex
  | .rawbread reg n k => (ex (.rawbread reg n) ∨ ∀ c, ∃ h, k (.error c) = .ret (.error c, h)) ∧ ∀ r, (k r).FailFast ex
  | .callback _ _ k => ∀ h, (k h).FailFast ex

/-- the continuation of a driver-monad bind: errors are handed on -/
def Prog.IsErrPass (g : Except Code α × Handle → Prog (Except Code β × Handle)) : Prop :=
  ∀ c h, g (.error c, h) = .ret (.error c, h)

theorem Prog.FailFast_bind {ex : Req → Prop} {p : Prog (Except Code α × Handle)}
    {g : Except Code α × Handle → Prog (Except Code β × Handle)}
    (hp : p.FailFast ex) (hg : ∀ a, (g a).FailFast ex) (he : Prog.IsErrPass g) : (p.bind g).FailFast ex := by
  induction p with
  | ret a => exact hg a
  | ub u => trivial
  | sread reg n k ih =>
    refine ⟨?_, fun r => ih r (hp.2 r)⟩
    rcases hp.1 with h | h
    · exact Or.inl h
    · exact Or.inr fun c => by obtain ⟨h', e⟩ := h c; exact ⟨h', by show (k (.error c)).bind g = _; rw [e]; exact he c h'⟩
  | rread reg k ih =>
    refine ⟨?_, fun r => ih r (hp.2 r)⟩
    rcases hp.1 with h | h
    · exact Or.inl h
    · exact Or.inr fun c => by obtain ⟨h', e⟩ := h c; exact ⟨h', by show (k (.error c)).bind g = _; rw [e]; exact he c h'⟩
  | swrite reg d k ih =>
    refine ⟨?_, fun r => ih r (hp.2 r)⟩
    rcases hp.1 with h | h
    · exact Or.inl h
    · exact Or.inr fun c => by obtain ⟨h', e⟩ := h c; exact ⟨h', by show (k (.error c)).bind g = _; rw [e]; exact he c h'⟩
  | bwrite reg d k ih =>
    refine ⟨?_, fun r => ih r (hp.2 r)⟩
    rcases hp.1 with h | h
    · exact Or.inl h
    · exact Or.inr fun c => by obtain ⟨h', e⟩ := h c; exact ⟨h', by show (k (.error c)).bind g = _; rw [e]; exact he c h'⟩
  | bread reg n k ih =>
    refine ⟨?_, fun r => ih r (hp.2 r)⟩
    rcases hp.1 with h | h
    · exact Or.inl h
    · exact Or.inr fun c => by obtain ⟨h', e⟩ := h c; exact ⟨h', by show (k (.error c)).bind g = _; rw [e]; exact he c h'⟩
  | rawbread reg n k ih =>
    refine ⟨?_, fun r => ih r (hp.2 r)⟩
    rcases hp.1 with h | h
    · exact Or.inl h
    · exact Or.inr fun c => by obtain ⟨h', e⟩ := h c; exact ⟨h', by show (k (.error c)).bind g = _; rw [e]; exact he c h'⟩
  | callback e h k ih => exact fun h' => ih h' (hp h')

theorem Prog.FailFast_mono {ex ex' : Req → Prop} (hx : ∀ q, ex q → ex' q) {p : Prog (Except Code α × Handle)}
    (hp : p.FailFast ex) : p.FailFast ex' := by
  induction p with
  | ret a => trivial
  | ub u => trivial
  | sread reg n k ih => exact ⟨hp.1.imp (hx _) id, fun r => ih r (hp.2 r)⟩
  | rread reg k ih => exact ⟨hp.1.imp (hx _) id, fun r => ih r (hp.2 r)⟩
  | swrite reg d k ih => exact ⟨hp.1.imp (hx _) id, fun r => ih r (hp.2 r)⟩
  | bwrite reg d k ih => exact ⟨hp.1.imp (hx _) id, fun r => ih r (hp.2 r)⟩
  | bread reg n k ih => exact ⟨hp.1.imp (hx _) id, fun r => ih r (hp.2 r)⟩
  | rawbread reg n k ih => exact ⟨hp.1.imp (hx _) id, fun r => ih r (hp.2 r)⟩
  | callback e h k ih => exact fun h' => ih h' (hp h')

/-- a program all of whose requests are exempt, followed by anything fail-fast -/
theorem Prog.FailFast_of_All {γ : Type} {ex : Req → Prop} {p : Prog γ} {g : γ → Prog (Except Code β × Handle)}
    (hp : p.All ex) (hg : ∀ a, (g a).FailFast ex) : (p.bind g).FailFast ex := by
  induction p with
  | ret a => exact hg a
  | ub u => trivial
  | sread reg n k ih => exact ⟨Or.inl hp.1, fun r => ih r (hp.2 r)⟩
  | rread reg k ih => exact ⟨Or.inl hp.1, fun r => ih r (hp.2 r)⟩
  | swrite reg d k ih => exact ⟨Or.inl hp.1, fun r => ih r (hp.2 r)⟩
  | bwrite reg d k ih => exact ⟨Or.inl hp.1, fun r => ih r (hp.2 r)⟩
  | bread reg n k ih => exact ⟨Or.inl hp.1, fun r => ih r (hp.2 r)⟩
  | rawbread reg n k ih => exact ⟨Or.inl hp.1, fun r => ih r (hp.2 r)⟩
  | callback e h k ih => exact fun h' => ih h' (hp h')

/-- every failing transfer of `x` (outside `ex`) ends `x` at once with the transfer's code -/
structure DM.FF (ex : Req → Prop) (x : DM α) : Prop where
  ff : ∀ h, (x h).FailFast ex

namespace DM
variable {ex : Req → Prop}

theorem FF_pure (a : α) : FF ex (pure a : DM α) := ⟨fun _ => trivial⟩
theorem FF_pure' (a : α) : FF ex (pure' a : DM α) := ⟨fun _ => trivial⟩
theorem FF_fail (c : Code) : FF ex (fail c : DM α) := ⟨fun _ => trivial⟩
theorem FF_ub (u : UB) : FF ex (DM.ub u : DM α) := ⟨fun _ => trivial⟩
theorem FF_getH : FF ex getH := ⟨fun _ => trivial⟩
theorem FF_setH (h : Handle) : FF ex (setH h) := ⟨fun _ => trivial⟩
theorem FF_modH (f : Handle → Handle) : FF ex (modH f) := ⟨fun _ => trivial⟩
theorem FF_cb (e : CbEvent) : FF ex (cb e) := ⟨fun _ _ => trivial⟩
theorem FF_sread (reg n : Nat) : FF ex (sread reg n) := ⟨fun h => ⟨Or.inr fun _ => ⟨h, rfl⟩, fun _ => trivial⟩⟩
theorem FF_rread (reg : Nat) : FF ex (rread reg) := ⟨fun h => ⟨Or.inr fun _ => ⟨h, rfl⟩, fun _ => trivial⟩⟩
theorem FF_swrite (reg : Nat) (d : List UInt8) : FF ex (swrite reg d) := ⟨fun h => ⟨Or.inr fun _ => ⟨h, rfl⟩, fun _ => trivial⟩⟩
theorem FF_bwrite (reg : Nat) (d : List UInt8) : FF ex (bwrite reg d) := ⟨fun h => ⟨Or.inr fun _ => ⟨h, rfl⟩, fun _ => trivial⟩⟩
theorem FF_bread (reg n : Nat) : FF ex (bread reg n) := ⟨fun h => ⟨Or.inr fun _ => ⟨h, rfl⟩, fun _ => trivial⟩⟩
theorem FF_rawbread (reg n : Nat) : FF ex (rawbread reg n) := ⟨fun h => ⟨Or.inr fun _ => ⟨h, rfl⟩, fun _ => trivial⟩⟩
theorem FF_ofExcept (r : Except Code α) : FF ex (ofExcept r) := by cases r <;> exact ⟨fun _ => trivial⟩

theorem FF_bind {x : DM α} {f : α → DM β} (hx : FF ex x) (hf : ∀ a, FF ex (f a)) : FF ex (x >>= f) := by
  constructor
  intro h
  show ((x h).bind _).FailFast ex
  apply Prog.FailFast_bind (hx.ff h)
  · intro ⟨r, h'⟩
    cases r with
    | ok a => exact (hf a).ff h'
    | error c => trivial
  · intro c h'; rfl

/-- a best-effort call: all its requests are exempt and its status is handed to the caller as a value -/
theorem FF_attempt_of_all {x : DM α} (hx : DM.All ex x) : FF ex (attempt x) := by
  constructor
  intro h
  show ((x h).bind _).FailFast ex
  exact Prog.FailFast_of_All (hx.all h) (fun _ => trivial)

theorem FF_ite {c : Prop} [Decidable c] {x y : DM α} (hx : FF ex x) (hy : FF ex y) : FF ex (if c then x else y) := by
  split <;> assumption

end DM

macro "ff_step" : tactic => `(tactic| first
  | intro _
  | exact DM.FF_pure _ | exact DM.FF_pure' _ | exact DM.FF_fail _ | exact DM.FF_ub _ | exact DM.FF_getH
  | exact DM.FF_setH _ | exact DM.FF_modH _ | exact DM.FF_cb _
  | exact DM.FF_sread _ _ | exact DM.FF_rread _ | exact DM.FF_swrite _ _ | exact DM.FF_bwrite _ _
  | exact DM.FF_bread _ _ | exact DM.FF_rawbread _ _ | exact DM.FF_ofExcept _
  | apply DM.FF_bind
  | assumption)

/-! ### no delivery after a failed transfer

  `Prog.fwp p f Q`: for all answers of chip and bus (values and failures), `p` never invokes the
  receive callback once a transfer has failed (`f` = a transfer has failed already), and every
  way `p` can end satisfies `Q f' a`, where `f'` says whether a transfer failed. -/

def Prog.fwp : Prog α → Bool → (Bool → α → Prop) → Prop
  | .ret a, f, Q => Q f a
  | .ub _, _, _ => True
  | .sread _ _ k, f, Q => (∀ v, (k (.ok v)).fwp f Q) ∧ ∀ c, (k (.error c)).fwp true Q
  | .rread _ k, f, Q => (∀ v, (k (.ok v)).fwp f Q) ∧ ∀ c, (k (.error c)).fwp true Q
  | .swrite _ _ k, f, Q => (k (.ok ())).fwp f Q ∧ ∀ c, (k (.error c)).fwp true Q
  | .bwrite _ _ k, f, Q => (k (.ok ())).fwp f Q ∧ ∀ c, (k (.error c)).fwp true Q
  | .bread _ _ k, f, Q => (∀ v, (k (.ok v)).fwp f Q) ∧ ∀ c, (k (.error c)).fwp true Q
  | .rawbread _ _ k, f, Q => (∀ v, (k (.ok v)).fwp f Q) ∧ ∀ c, (k (.error c)).fwp true Q
  | .callback e _ k, f, Q => (f = true → ∀ d n, e ≠ .rx d n) ∧ ∀ h, (k h).fwp f Q

theorem Prog.fwp_bind (p : Prog α) (g : α → Prog β) (f : Bool) (Q : Bool → β → Prop) :
    (p.bind g).fwp f Q ↔ p.fwp f (fun f' a => (g a).fwp f' Q) := by
  induction p generalizing f with
  | ret a => exact Iff.rfl
  | ub u => exact Iff.rfl
  | sread reg n k ih => exact and_congr (forall_congr' fun v => ih _ _) (forall_congr' fun c => ih _ _)
  | rread reg k ih => exact and_congr (forall_congr' fun v => ih _ _) (forall_congr' fun c => ih _ _)
  | swrite reg d k ih => exact and_congr (ih _ _) (forall_congr' fun c => ih _ _)
  | bwrite reg d k ih => exact and_congr (ih _ _) (forall_congr' fun c => ih _ _)
  | bread reg n k ih => exact and_congr (forall_congr' fun v => ih _ _) (forall_congr' fun c => ih _ _)
  | rawbread reg n k ih => exact and_congr (forall_congr' fun v => ih _ _) (forall_congr' fun c => ih _ _)
  | callback e h k ih => exact and_congr Iff.rfl (forall_congr' fun h' => ih _ _)

theorem Prog.fwp_mono (p : Prog α) (f : Bool) (Q Q' : Bool → α → Prop) (hq : ∀ f a, Q f a → Q' f a)
    (hp : p.fwp f Q) : p.fwp f Q' := by
  induction p generalizing f with
  | ret a => exact hq _ _ hp
  | ub u => trivial
  | sread reg n k ih => exact ⟨fun v => ih _ _ (hp.1 v), fun c => ih _ _ (hp.2 c)⟩
  | rread reg k ih => exact ⟨fun v => ih _ _ (hp.1 v), fun c => ih _ _ (hp.2 c)⟩
  | swrite reg d k ih => exact ⟨ih _ _ hp.1, fun c => ih _ _ (hp.2 c)⟩
  | bwrite reg d k ih => exact ⟨ih _ _ hp.1, fun c => ih _ _ (hp.2 c)⟩
  | bread reg n k ih => exact ⟨fun v => ih _ _ (hp.1 v), fun c => ih _ _ (hp.2 c)⟩
  | rawbread reg n k ih => exact ⟨fun v => ih _ _ (hp.1 v), fun c => ih _ _ (hp.2 c)⟩
  | callback e h k ih => exact ⟨hp.1, fun h' => ih _ _ (hp.2 h')⟩

/-- once a transfer has failed the flag stays set -/
theorem Prog.fwp_true_flag (p : Prog α) (Q : Bool → α → Prop) (hp : p.fwp true Q) :
    p.fwp true (fun f a => f = true ∧ Q f a) := by
  induction p with
  | ret a => exact ⟨rfl, hp⟩
  | ub u => trivial
  | sread reg n k ih => exact ⟨fun v => ih _ (hp.1 v), fun c => ih _ (hp.2 c)⟩
  | rread reg k ih => exact ⟨fun v => ih _ (hp.1 v), fun c => ih _ (hp.2 c)⟩
  | swrite reg d k ih => exact ⟨ih _ hp.1, fun c => ih _ (hp.2 c)⟩
  | bwrite reg d k ih => exact ⟨ih _ hp.1, fun c => ih _ (hp.2 c)⟩
  | bread reg n k ih => exact ⟨fun v => ih _ (hp.1 v), fun c => ih _ (hp.2 c)⟩
  | rawbread reg n k ih => exact ⟨fun v => ih _ (hp.1 v), fun c => ih _ (hp.2 c)⟩
  | callback e h k ih => exact ⟨hp.1, fun h' => ih _ (hp.2 h')⟩

/-- a program that never delivers is safe from any start -/
theorem Prog.fwp_any_start (p : Prog α) (hp : p.fwp true (fun _ _ => True)) (f : Bool) : p.fwp f (fun _ _ => True) := by
  induction p generalizing f with
  | ret a => trivial
  | ub u => trivial
  | sread reg n k ih => exact ⟨fun v => ih _ (hp.1 v) _, fun c => hp.2 c⟩
  | rread reg k ih => exact ⟨fun v => ih _ (hp.1 v) _, fun c => hp.2 c⟩
  | swrite reg d k ih => exact ⟨ih _ hp.1 _, fun c => hp.2 c⟩
  | bwrite reg d k ih => exact ⟨ih _ hp.1 _, fun c => hp.2 c⟩
  | bread reg n k ih => exact ⟨fun v => ih _ (hp.1 v) _, fun c => hp.2 c⟩
  | rawbread reg n k ih => exact ⟨fun v => ih _ (hp.1 v) _, fun c => hp.2 c⟩
  | callback e h k ih => exact ⟨fun _ => hp.1 rfl, fun h' => ih _ (hp.2 h') _⟩

/-- failure ⇒ the call ends with an error; no delivery after a failure (clean start) -/
structure DM.FS (x : DM α) : Prop where
  q : ∀ h, (x h).fwp false (fun f' rh => f' = true → ∃ c, rh.1 = .error c)

/-- no receive callback at all -/
structure DM.NR (x : DM α) : Prop where
  q : ∀ h, (x h).fwp true (fun _ _ => True)

/-- no delivery after a failure (clean start) -/
structure DM.OKH (x : DM α) : Prop where
  q : ∀ h, (x h).fwp false (fun _ _ => True)

namespace DM

theorem fwp_bind' (x : DM α) (g : α → DM β) (h : Handle) (f : Bool) (Q : Bool → Except Code β × Handle → Prop) :
    ((x >>= g) h).fwp f Q ↔ (x h).fwp f (fun f' rh => match rh.1 with
      | .ok a => (g a rh.2).fwp f' Q
      | .error c => Q f' (.error c, rh.2)) := by
  show ((x h).bind _).fwp f Q ↔ _
  rw [Prog.fwp_bind]
  apply Iff.intro <;> intro hp <;> refine Prog.fwp_mono _ _ _ _ ?_ hp <;> intro f' ⟨r, h'⟩ hq <;> cases r <;> exact hq

theorem fwp_attempt (x : DM α) (h : Handle) (f : Bool) (Q : Bool → Except Code (Except Code α) × Handle → Prop) :
    (attempt x h).fwp f Q ↔ (x h).fwp f (fun f' rh => Q f' (.ok rh.1, rh.2)) := by
  show ((x h).bind _).fwp f Q ↔ _
  rw [Prog.fwp_bind]
  exact Iff.rfl

-- leaf rules
theorem fwp_pure (a : α) (h : Handle) (f Q) : ((pure a : DM α) h).fwp f Q ↔ Q f (.ok a, h) := Iff.rfl
theorem fwp_fail (c : Code) (h : Handle) (f) (Q : Bool → Except Code α × Handle → Prop) :
    ((fail c : DM α) h).fwp f Q ↔ Q f (.error c, h) := Iff.rfl
theorem fwp_ub (u : UB) (h : Handle) (f) (Q : Bool → Except Code α × Handle → Prop) : ((DM.ub u : DM α) h).fwp f Q ↔ True := Iff.rfl
theorem fwp_getH (h : Handle) (f Q) : (getH h).fwp f Q ↔ Q f (.ok h, h) := Iff.rfl
theorem fwp_modH (g : Handle → Handle) (h : Handle) (f Q) : (modH g h).fwp f Q ↔ Q f (.ok (), g h) := Iff.rfl
theorem fwp_rread (reg : Nat) (h : Handle) (f Q) :
    (rread reg h).fwp f Q ↔ (∀ v, Q f (.ok v, h)) ∧ ∀ c, Q true (.error c, h) := Iff.rfl
theorem fwp_swrite (reg : Nat) (d : List UInt8) (h : Handle) (f Q) :
    (swrite reg d h).fwp f Q ↔ Q f (.ok (), h) ∧ ∀ c, Q true (.error c, h) := Iff.rfl
theorem fwp_bread (reg n : Nat) (h : Handle) (f Q) :
    (bread reg n h).fwp f Q ↔ (∀ v, Q f (.ok v, h)) ∧ ∀ c, Q true (.error c, h) := Iff.rfl

-- FS
theorem FS_pure (a : α) : FS (pure a : DM α) := ⟨fun _ e => by cases e⟩
theorem FS_pure' (a : α) : FS (pure' a : DM α) := ⟨fun _ e => by cases e⟩
theorem FS_fail (c : Code) : FS (fail c : DM α) := ⟨fun _ e => by cases e⟩
theorem FS_ub (u : UB) : FS (DM.ub u : DM α) := ⟨fun _ => trivial⟩
theorem FS_getH : FS getH := ⟨fun _ e => by cases e⟩
theorem FS_setH (h : Handle) : FS (setH h) := ⟨fun _ e => by cases e⟩
theorem FS_modH (f : Handle → Handle) : FS (modH f) := ⟨fun _ e => by cases e⟩
theorem FS_cb (e : CbEvent) : FS (cb e) := ⟨fun _ => by simp [DM.cb, Prog.fwp]⟩
theorem FS_sread (reg n : Nat) : FS (sread reg n) := ⟨fun _ => by simp [DM.sread, Prog.fwp]⟩
theorem FS_rread (reg : Nat) : FS (rread reg) := ⟨fun _ => by simp [DM.rread, Prog.fwp]⟩
theorem FS_swrite (reg : Nat) (d : List UInt8) : FS (swrite reg d) := ⟨fun _ => by simp [DM.swrite, Prog.fwp]⟩
theorem FS_bwrite (reg : Nat) (d : List UInt8) : FS (bwrite reg d) := ⟨fun _ => by simp [DM.bwrite, Prog.fwp]⟩
theorem FS_bread (reg n : Nat) : FS (bread reg n) := ⟨fun _ => by simp [DM.bread, Prog.fwp]⟩
theorem FS_rawbread (reg n : Nat) : FS (rawbread reg n) := ⟨fun _ => by simp [DM.rawbread, Prog.fwp]⟩
theorem FS_ofExcept (r : Except Code α) : FS (ofExcept r) := by cases r <;> exact ⟨fun _ e => by cases e⟩
theorem FS_bind {x : DM α} {g : α → DM β} (hx : FS x) (hg : ∀ a, FS (g a)) : FS (x >>= g) := by
  constructor
  intro h
  rw [fwp_bind']
  refine Prog.fwp_mono _ _ _ _ ?_ (hx.q h)
  intro f' ⟨r, h'⟩ hq
  cases r with
  | error c => exact fun _ => ⟨c, rfl⟩
  | ok a =>
    cases f' with
    | true => obtain ⟨c, e⟩ := hq rfl; cases e
    | false => exact (hg a).q h'
theorem FS_ite {c : Prop} [Decidable c] {x y : DM α} (hx : FS x) (hy : FS y) : FS (if c then x else y) := by
  split <;> assumption

-- NR
theorem NR_pure (a : α) : NR (pure a : DM α) := ⟨fun _ => trivial⟩
theorem NR_pure' (a : α) : NR (pure' a : DM α) := ⟨fun _ => trivial⟩
theorem NR_fail (c : Code) : NR (fail c : DM α) := ⟨fun _ => trivial⟩
theorem NR_ub (u : UB) : NR (DM.ub u : DM α) := ⟨fun _ => trivial⟩
theorem NR_getH : NR getH := ⟨fun _ => trivial⟩
theorem NR_setH (h : Handle) : NR (setH h) := ⟨fun _ => trivial⟩
theorem NR_modH (f : Handle → Handle) : NR (modH f) := ⟨fun _ => trivial⟩
theorem NR_cb_tx : NR (cb .tx) := ⟨fun _ => by simp [DM.cb, Prog.fwp]⟩
theorem NR_cb_cad (n : Nat) : NR (cb (.cad n)) := ⟨fun _ => by simp [DM.cb, Prog.fwp]⟩
theorem NR_sread (reg n : Nat) : NR (sread reg n) := ⟨fun _ => by simp [DM.sread, Prog.fwp]⟩
theorem NR_rread (reg : Nat) : NR (rread reg) := ⟨fun _ => by simp [DM.rread, Prog.fwp]⟩
theorem NR_swrite (reg : Nat) (d : List UInt8) : NR (swrite reg d) := ⟨fun _ => by simp [DM.swrite, Prog.fwp]⟩
theorem NR_bwrite (reg : Nat) (d : List UInt8) : NR (bwrite reg d) := ⟨fun _ => by simp [DM.bwrite, Prog.fwp]⟩
theorem NR_bread (reg n : Nat) : NR (bread reg n) := ⟨fun _ => by simp [DM.bread, Prog.fwp]⟩
theorem NR_rawbread (reg n : Nat) : NR (rawbread reg n) := ⟨fun _ => by simp [DM.rawbread, Prog.fwp]⟩
theorem NR_ofExcept (r : Except Code α) : NR (ofExcept r) := by cases r <;> exact ⟨fun _ => trivial⟩
theorem NR_bind {x : DM α} {g : α → DM β} (hx : NR x) (hg : ∀ a, NR (g a)) : NR (x >>= g) := by
  constructor
  intro h
  rw [fwp_bind']
  refine Prog.fwp_mono _ _ _ _ ?_ (Prog.fwp_true_flag _ _ (hx.q h))
  intro f' ⟨r, h'⟩ ⟨e, _⟩
  subst e
  cases r with
  | error c => trivial
  | ok a => exact (hg a).q h'
theorem NR_fail_bind (c : Code) (g : α → DM β) : NR ((fail c : DM α) >>= g) := ⟨fun _ => trivial⟩
theorem NR_attempt {x : DM α} (hx : NR x) : NR (attempt x) := by
  constructor
  intro h
  rw [fwp_attempt]
  exact Prog.fwp_mono _ _ _ _ (fun _ _ _ => trivial) (hx.q h)
theorem NR_ite {c : Prop} [Decidable c] {x y : DM α} (hx : NR x) (hy : NR y) : NR (if c then x else y) := by
  split <;> assumption

-- OKH
theorem OKH_of_FS {x : DM α} (hx : FS x) : OKH x := ⟨fun h => Prog.fwp_mono _ _ _ _ (fun _ _ _ => trivial) (hx.q h)⟩
theorem OKH_of_NR {x : DM α} (hx : NR x) : OKH x := ⟨fun h => Prog.fwp_any_start _ (hx.q h) false⟩
theorem OKH_bind_FS {x : DM α} {g : α → DM β} (hx : FS x) (hg : ∀ a, OKH (g a)) : OKH (x >>= g) := by
  constructor
  intro h
  rw [fwp_bind']
  refine Prog.fwp_mono _ _ _ _ ?_ (hx.q h)
  intro f' ⟨r, h'⟩ hq
  cases r with
  | error c => trivial
  | ok a =>
    cases f' with
    | true => obtain ⟨c, e⟩ := hq rfl; cases e
    | false => exact (hg a).q h'
/-- `r = attempt x; if ok then A else B`: `A` only runs when no transfer of `x` failed -/
theorem OKH_attempt_bind {x : DM α} {g : Except Code α → DM β} (hx : FS x)
    (hok : ∀ a, OKH (g (.ok a))) (herr : ∀ c, NR (g (.error c))) : OKH (attempt x >>= g) := by
  constructor
  intro h
  rw [fwp_bind', fwp_attempt]
  refine Prog.fwp_mono _ _ _ _ ?_ (hx.q h)
  intro f' ⟨r, h'⟩ hq
  cases r with
  | error c => exact Prog.fwp_any_start _ ((herr c).q h') f'
  | ok a =>
    cases f' with
    | true => obtain ⟨c, e⟩ := hq rfl; cases e
    | false => exact (hok a).q h'
/-- a tail that never delivers may follow anything -/
theorem OKH_bind_NR {x : DM α} {g : α → DM β} (hx : OKH x) (hg : ∀ a, NR (g a)) : OKH (x >>= g) := by
  constructor
  intro h
  rw [fwp_bind']
  refine Prog.fwp_mono _ _ _ _ ?_ (hx.q h)
  intro f' ⟨r, h'⟩ _
  cases r with
  | error c => trivial
  | ok a => exact Prog.fwp_any_start _ ((hg a).q h') f'
theorem OKH_attempt {x : DM α} (hx : OKH x) : OKH (attempt x) := by
  constructor
  intro h
  rw [fwp_attempt]
  exact Prog.fwp_mono _ _ _ _ (fun _ _ _ => trivial) (hx.q h)
theorem OKH_pure (a : α) : OKH (pure a : DM α) := ⟨fun _ => trivial⟩
theorem OKH_ub (u : UB) : OKH (DM.ub u : DM α) := ⟨fun _ => trivial⟩
theorem OKH_ite {c : Prop} [Decidable c] {x y : DM α} (hx : OKH x) (hy : OKH y) : OKH (if c then x else y) := by
  split <;> assumption

end DM

macro "fs_step" : tactic => `(tactic| first
  | intro _
  | exact DM.FS_pure _ | exact DM.FS_pure' _ | exact DM.FS_fail _ | exact DM.FS_ub _ | exact DM.FS_getH
  | exact DM.FS_setH _ | exact DM.FS_modH _ | exact DM.FS_cb _
  | exact DM.FS_sread _ _ | exact DM.FS_rread _ | exact DM.FS_swrite _ _ | exact DM.FS_bwrite _ _
  | exact DM.FS_bread _ _ | exact DM.FS_rawbread _ _ | exact DM.FS_ofExcept _
  | apply DM.FS_bind
  | assumption)

macro "nr_step" : tactic => `(tactic| first
  | intro _
  | exact DM.NR_pure _ | exact DM.NR_pure' _ | exact DM.NR_fail _ | exact DM.NR_ub _ | exact DM.NR_getH
  | exact DM.NR_setH _ | exact DM.NR_modH _ | exact DM.NR_cb_tx | exact DM.NR_cb_cad _
  | exact DM.NR_sread _ _ | exact DM.NR_rread _ | exact DM.NR_swrite _ _ | exact DM.NR_bwrite _ _
  | exact DM.NR_bread _ _ | exact DM.NR_rawbread _ _ | exact DM.NR_ofExcept _
  | exact DM.NR_fail_bind _ _ | apply DM.NR_bind | apply DM.NR_attempt
  | assumption)

/-! ### failures leave the handle as it was -/

/-- whenever a transfer of `x` has failed, `x` ends with the handle it started with -/
structure DM.TX (x : DM α) : Prop where
  q : ∀ h, (x h).fwp false (fun f' rh => f' = true → rh.2 = h)

/-- `x` never changes the handle -/
structure DM.KeepH (x : DM α) : Prop where
  q : ∀ h f, (x h).fwp f (fun _ rh => rh.2 = h)

namespace DM
theorem KeepH_pure (a : α) : KeepH (pure a : DM α) := ⟨fun _ _ => rfl⟩
theorem KeepH_fail (c : Code) : KeepH (fail c : DM α) := ⟨fun _ _ => rfl⟩
theorem KeepH_getH : KeepH getH := ⟨fun _ _ => rfl⟩
theorem KeepH_rread (reg : Nat) : KeepH (rread reg) := ⟨fun _ _ => by simp [DM.rread, Prog.fwp]⟩
theorem KeepH_sread (reg n : Nat) : KeepH (sread reg n) := ⟨fun _ _ => by simp [DM.sread, Prog.fwp]⟩
theorem KeepH_bread (reg n : Nat) : KeepH (bread reg n) := ⟨fun _ _ => by simp [DM.bread, Prog.fwp]⟩
theorem KeepH_bind {x : DM α} {g : α → DM β} (hx : KeepH x) (hg : ∀ a, KeepH (g a)) : KeepH (x >>= g) := by
  constructor
  intro h f
  rw [fwp_bind']
  refine Prog.fwp_mono _ _ _ _ ?_ (hx.q h f)
  intro f' ⟨r, h'⟩ e
  cases e
  cases r with
  | error c => rfl
  | ok a => exact (hg a).q _ _
theorem KeepH_ite {c : Prop} [Decidable c] {x y : DM α} (hx : KeepH x) (hy : KeepH y) : KeepH (if c then x else y) := by
  split <;> assumption

theorem TX_pure (a : α) : TX (pure a : DM α) := ⟨fun _ e => by cases e⟩
theorem TX_of_keepH {x : DM α} (hx : KeepH x) : TX x := ⟨fun h => Prog.fwp_mono _ _ _ _ (fun _ _ e _ => e) (hx.q h false)⟩
theorem TX_modH_pure (g : Handle → Handle) (a : α) : TX (do modH g; pure a) := ⟨fun _ e => by cases e⟩
theorem TX_bind_keep {x : DM α} {g : α → DM β} (hx : KeepH x) (hfs : FS x) (hg : ∀ a, TX (g a)) : TX (x >>= g) := by
  constructor
  intro h
  rw [fwp_bind']
  have h1 := hx.q h false
  have h2 := hfs.q h
  -- both facts about the leaves of `x`
  have h12 : (x h).fwp false (fun f' rh => rh.2 = h ∧ (f' = true → ∃ c, rh.1 = .error c)) := by
    generalize x h = p at h1 h2
    generalize false = f0 at h1 h2
    induction p generalizing f0 with
    | ret a => exact ⟨h1, h2⟩
    | ub u => trivial
    | sread reg n k ih => exact ⟨fun v => ih _ _ (h1.1 v) (h2.1 v), fun c => ih _ _ (h1.2 c) (h2.2 c)⟩
    | rread reg k ih => exact ⟨fun v => ih _ _ (h1.1 v) (h2.1 v), fun c => ih _ _ (h1.2 c) (h2.2 c)⟩
    | swrite reg d k ih => exact ⟨ih _ _ h1.1 h2.1, fun c => ih _ _ (h1.2 c) (h2.2 c)⟩
    | bwrite reg d k ih => exact ⟨ih _ _ h1.1 h2.1, fun c => ih _ _ (h1.2 c) (h2.2 c)⟩
    | bread reg n k ih => exact ⟨fun v => ih _ _ (h1.1 v) (h2.1 v), fun c => ih _ _ (h1.2 c) (h2.2 c)⟩
    | rawbread reg n k ih => exact ⟨fun v => ih _ _ (h1.1 v) (h2.1 v), fun c => ih _ _ (h1.2 c) (h2.2 c)⟩
    | callback e h0 k ih => exact ⟨h1.1, fun h' => ih _ _ (h1.2 h') (h2.2 h')⟩
  refine Prog.fwp_mono _ _ _ _ ?_ h12
  intro f' ⟨r, h'⟩ ⟨e, hq⟩
  cases e
  cases r with
  | error c => exact fun _ => rfl
  | ok a =>
    cases f' with
    | false => exact (hg a).q _
    | true => obtain ⟨c, e⟩ := hq rfl; cases e
theorem TX_ite {c : Prop} [Decidable c] {x y : DM α} (hx : TX x) (hy : TX y) : TX (if c then x else y) := by
  split <;> assumption
end DM

end Sx
