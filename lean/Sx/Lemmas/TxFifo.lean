import Sx.Lemmas.Ghost
import Sx.Lemmas.FifoFsk
/-
  The environment of an FSK/OOK transmission, as the datasheet describes it (C04): a 64-byte FIFO
  from which the modulator may take any number of bytes before each SPI transfer (and so also
  between the transfers of a running handler), flag bits derived from its level, and a transmit
  callback after which the session is over.  Written with datasheet literals only.
-/
namespace Sx

structure TxG where
  fifo : List UInt8 := []      -- content of the chip FIFO, oldest first
  out : List UInt8 := []       -- bytes the modulator has taken, oldest first
  handed : List UInt8 := []    -- every byte written into the FIFO by the host, oldest first
  irq : UInt8 := 0             -- the last RegIrqFlags2 value read
  cbs : List CbEvent := []     -- callbacks so far
  ended : Bool := false        -- a callback has run: the application may have done anything
  poison : Bool := false       -- FIFO overflow, a FIFO flush by acknowledging FifoOverrun, or a
                               -- request the transmit path is not supposed to make

namespace TxG
/-- the modulator takes `k` bytes -/
def shift (g : TxG) (k : Nat) : TxG := { g with fifo := g.fifo.drop k, out := g.out ++ g.fifo.take k }

/-- a burst write of `d` into the FIFO -/
def put (g : TxG) (d : List UInt8) : TxG :=
  if g.fifo.length + d.length ≤ 64 then { g with fifo := g.fifo ++ d, handed := g.handed ++ d }
  else { g with poison := true }

def live (g : TxG) : Prop := g.poison = false ∧ g.ended = false

/-- nothing is lost or duplicated inside the chip -/
def Conserved (g : TxG) : Prop := g.handed = g.out ++ g.fifo

theorem shift_conserved {g : TxG} (h : g.Conserved) (k : Nat) : (g.shift k).Conserved := by
  unfold Conserved shift at *
  simp [h, List.append_assoc]

theorem put_conserved {g : TxG} (h : g.Conserved) (d : List UInt8) : (g.put d).Conserved := by
  unfold Conserved put at *
  split <;> simp [h, List.append_assoc]
end TxG

/-- what a read of RegIrqFlags2 may return while transmitting with FIFO content `f`:
    PayloadReady and FifoOverrun are not raised, FifoLevel clear means at most 31 bytes
    (FifoThreshold = 31), FifoEmpty set means empty -/
def TxFlagsOk (v : UInt8) (f : List UInt8) : Prop :=
  v &&& 0x04 = 0 ∧ v &&& 0x10 = 0 ∧ (v &&& 0x20 = 0 → f.length ≤ 31) ∧ (v &&& 0x40 ≠ 0 → f = [])

def txRLive (g : TxG) (q : Req) (a : Ans) (g' : TxG) : Prop :=
  match q, a with
  | .rread reg, .u8 r =>
    if reg = 0x3f then
      match r with
      | .ok v => ∃ k, g' = { g.shift k with irq := v } ∧ TxFlagsOk v (g.shift k).fifo
      | .error _ => ∃ k, g' = g.shift k
    else g'.poison = true
  | .swrite reg d, .unit _ =>
    if reg = 0x3f ∧ d.length = 1 ∧ d.headD 0 &&& 0x10 = 0 then ∃ k, g' = g.shift k else g'.poison = true
  | .bwrite reg d, .unit r =>
    if reg = 0 then
      match r with
      | .ok _ => ∃ k, g' = (g.shift k).put d
      | .error _ => ∃ k, g' = g.shift k
    else g'.poison = true
  | _, _ => g'.poison = true

def txR (g : TxG) (q : Req) (a : Ans) (g' : TxG) : Prop :=
  if g.poison = true ∨ g.ended = true then g' = g else txRLive g q a g'

/-- after a callback the application may have done anything to handle and chip: the session
    this environment describes is over -/
def txC (g : TxG) (e : CbEvent) (_h _h' : Handle) (g' : TxG) : Prop :=
  g' = { g with cbs := g.cbs ++ [e], ended := true }

def txE : GEnv TxG := { R := txR, C := txC }

end Sx
