import Sx.Lemmas.TxSteps
import Sx.Lemmas.Cache
import Sx.Lemmas.Bits
import Sx.Lemmas.Bytes
/-
  The transmit environment `txE` (Sx/Lemmas/TxFifo.lean) covers the interpreter over the chip
  model: `tx_covers`.  Every `gwp` fact about `txE` therefore holds for every execution of the
  cached and the uncached build on a transmitting chip with any schedule of modulator events
  and any failing transfers.
-/
namespace Sx
open Mem Chip

/-- the chip while transmitting in FSK/OOK mode with FIFO content `f`: FSK page, FifoThreshold
    31, neither PayloadReady nor FifoOverrun stored, overflow counter `n0` -/
structure TxChip (n0 : Nat) (c : Chip) (f : List UInt8) : Prop where
  fifo : c.fifo = f
  fsk : c.isLora = false
  thr : c.fsk.rd 0x35 &&& 0x3f = 31
  flags : c.fsk.rd 0x3f &&& 0x14 = 0
  ovf : c.overflow = n0

theorem TxG.shift_shift (g : TxG) (k j : Nat) : (g.shift k).shift j = g.shift (k + j) := by
  unfold TxG.shift
  simp only [List.drop_drop, List.append_assoc, TxG.mk.injEq, and_true, true_and]
  rw [List.take_add]

theorem TxG.shift_zero (g : TxG) : g.shift 0 = g := by
  unfold TxG.shift; simp

theorem or8_and14 (x : UInt8) : (x ||| 0x08) &&& 0x14 = x &&& 0x14 := by byte_bits
theorem andfe_and14 (x : UInt8) : (x &&& 0xfe) &&& 0x14 = x &&& 0x14 := by byte_bits

theorem apply_txShift_nil (c : Chip) (hf : c.fifo = []) : Env.txShift.apply c = { c with underflow := c.underflow + 1 } := by
  show (match c.fifo with | [] => _ | v :: rest => _) = _
  rw [hf]
theorem apply_txShift_cons (c : Chip) (v rest) (hf : c.fifo = v :: rest) :
    Env.txShift.apply c = { c with fifo := rest, air := if c.air.length < 8192 then c.air ++ [v] else c.air } := by
  show (match c.fifo with | [] => _ | v :: rest => _) = _
  rw [hf]
theorem apply_txSent (c : Chip) : Env.txSent.apply c = { c with fsk := c.fsk.wr 0x3f (c.fsk.rd 0x3f ||| 0x08) } := rfl

theorem txchip_event {n0 c f} (h : TxChip n0 c f) (e : Env) (he : e = .txShift ∨ e = .txSent) :
    ∃ k, TxChip n0 (e.apply c) (f.drop k) := by
  rcases he with rfl | rfl
  · cases hf : c.fifo with
    | nil =>
      refine ⟨0, ?_⟩
      rw [apply_txShift_nil c hf]
      exact ⟨h.fifo, h.fsk, h.thr, h.flags, h.ovf⟩
    | cons v rest =>
      refine ⟨1, ?_⟩
      rw [apply_txShift_cons c v rest hf]
      refine ⟨?_, h.fsk, h.thr, h.flags, h.ovf⟩
      show rest = f.drop 1
      rw [← h.fifo, hf]; rfl
  · refine ⟨0, ?_⟩
    rw [apply_txSent, List.drop_zero]
    refine ⟨h.fifo, h.fsk, ?_, ?_, h.ovf⟩
    · show (c.fsk.wr 0x3f _).rd 0x35 &&& 0x3f = 31
      rw [rd_wr_ne _ _ _ _ (by decide)]; exact h.thr
    · show (c.fsk.wr 0x3f (c.fsk.rd 0x3f ||| 0x08)).rd 0x3f &&& 0x14 = 0
      rw [rd_wr]
      split
      · rw [or8_and14]; exact h.flags
      · exact h.flags
set_option maxRecDepth 100000 in
theorem flags_bv : ∀ b : BitVec 8, ∀ p q r : Bool, (⟨b⟩ : UInt8) &&& 0x14 = 0 →
    (let v0 := (⟨b⟩ : UInt8) &&& 0x1f
     let v1 := if p = true then v0 ||| 0x80 else v0
     let v2 := if q = true then v1 ||| 0x40 else v1
     let v := if r = true then v2 ||| 0x20 else v2
     v &&& 0x04 = 0 ∧ v &&& 0x10 = 0 ∧ (v &&& 0x20 = 0 → r = false) ∧ (v &&& 0x40 ≠ 0 → q = true)) := by
  decide +kernel

theorem flags2_ok {n0 c f} (h : TxChip n0 c f) : TxFlagsOk c.flags2 f := by
  have hb := flags_bv (c.fsk.rd 0x3f).toBitVec (decide (c.fifo.length ≥ 64)) (decide (c.fifo.length = 0))
    (decide (c.fifo.length > (c.fsk.rd 0x35 &&& 0x3f).toNat)) h.flags
  simp only [decide_eq_true_eq, decide_eq_false_iff_not] at hb
  obtain ⟨h1, h2, h3, h4⟩ := hb
  have hthr : (c.fsk.rd 0x35 &&& 0x3f).toNat = 31 := by rw [h.thr]; rfl
  refine ⟨h1, h2, fun hz => ?_, fun hz => ?_⟩
  · have := h3 hz; rw [hthr, h.fifo] at this; omega
  · have := h4 hz; rw [h.fifo] at this; exact List.length_eq_zero_iff.mp this

structure TxWorld (n0 : Nat) (cached : Bool) (w : World) (g : TxG) : Prop where
  chip : TxChip n0 w.chip g.fifo
  sched : ∀ e ∈ w.sched, e.2 = .txShift ∨ e.2 = .txSent
  cache : cached = true → w.cache.WF

/-- the relation between worlds and ghost states: the session is over or went wrong (then the
    environment promises nothing), or the world is a transmitting chip with the ghost FIFO -/
def txAbs (n0 : Nat) (cached : Bool) (w : World) (g : TxG) : Prop :=
  g.poison = true ∨ g.ended = true ∨ TxWorld n0 cached w g

theorem fold_tx {n0 : Nat} (P : Nat → Prop) [DecidablePred P] (l : List (Nat × Env)) (hl : ∀ e ∈ l, e.2 = .txShift ∨ e.2 = .txSent) :
    ∀ (c : Chip) (f : List UInt8), TxChip n0 c f →
      ∃ k, TxChip n0 (l.foldl (fun c e => if P e.1 then e.2.apply c else c) c) (f.drop k) := by
  induction l with
  | nil => intro c f h; exact ⟨0, by simpa using h⟩
  | cons e es ih =>
    intro c f h
    simp only [List.foldl_cons]
    by_cases hx : P e.1
    · rw [if_pos hx]
      obtain ⟨k1, h1⟩ := txchip_event h e.2 (hl e (List.mem_cons_self ..))
      obtain ⟨k2, h2⟩ := ih (fun e' he' => hl e' (List.mem_cons_of_mem _ he')) _ _ h1
      exact ⟨k1 + k2, by rw [← List.drop_drop]; exact h2⟩
    · rw [if_neg hx]
      exact ih (fun e' he' => hl e' (List.mem_cons_of_mem _ he')) _ _ h

theorem pre_tx {n0 cached w g} (hw : TxWorld n0 cached w g) :
    ∃ k, TxWorld n0 cached w.pre.1 (g.shift k) ∧ w.pre.1.cache = w.cache := by
  obtain ⟨k, hk⟩ := fold_tx (fun i => i = w.xfer) w.sched hw.sched w.chip g.fifo hw.chip
  exact ⟨k, ⟨hk, hw.sched, hw.cache⟩, rfl⟩

theorem peek_flags2 (c : Chip) (hl : c.isLora = false) : c.peek 0x3f = c.flags2 := by
  simp [Chip.peek, hl]

/-- a register read of RegIrqFlags2 on the bus -/
theorem busRead_flags_tx {n0 cached w g} (hw : TxWorld n0 cached w g) :
    ∃ k, TxWorld n0 cached (w.busRead 0x3f 1).2 (g.shift k) ∧ (w.busRead 0x3f 1).2.cache = w.cache ∧
      match (w.busRead 0x3f 1).1 with
      | .ok v => TxFlagsOk v.toUInt8 (g.shift k).fifo
      | .error _ => True := by
  obtain ⟨k, hk, hcache⟩ := pre_tx hw
  refine ⟨k, ?_⟩
  unfold World.busRead
  generalize w.pre = p at hk hcache
  obtain ⟨w1, code⟩ := p
  cases code with
  | some c => exact ⟨⟨hk.chip, hk.sched, hk.cache⟩, hcache, trivial⟩
  | none =>
    simp only
    rw [readN_one _ 0x3f (by decide)]
    simp only [show (0x3f % 128) = 0x3f from rfl, be32_single, peek_flags2 _ hk.chip.fsk]
    exact ⟨⟨hk.chip, hk.sched, hk.cache⟩, hcache, flags2_ok hk.chip⟩

theorem write_ack_tx {n0 c f} (h : TxChip n0 c f) (v : UInt8) (hv : v &&& 0x10 = 0) : TxChip n0 (c.write 0x3f v) f := by
  have hne : ¬(v &&& 0x10 ≠ 0) := fun hn => hn hv
  simp only [Chip.write, h.fsk, show (0x3f % 128) = 0x3f from rfl, show ¬(0x3f = 0) by decide, ↓reduceIte,
    Bool.false_eq_true, false_and, Bool.not_false, true_and, show ¬(0x3f = 0x3e) by decide, hne]
  split
  · refine ⟨h.fifo, h.fsk, ?_, ?_, h.ovf⟩
    · show (c.fsk.wr 0x3f _).rd 0x35 &&& 0x3f = 31
      rw [rd_wr_ne _ _ _ _ (by decide)]; exact h.thr
    · show (c.fsk.wr 0x3f (c.fsk.rd 0x3f &&& 0xfe)).rd 0x3f &&& 0x14 = 0
      rw [rd_wr]
      split
      · rw [andfe_and14]; exact h.flags
      · exact h.flags
  · exact h

theorem busWrite_ack_tx {n0 cached w g} (hw : TxWorld n0 cached w g) (v : UInt8) (hv : v &&& 0x10 = 0) :
    ∃ k, TxWorld n0 cached (w.busWrite 0x3f [v]).2 (g.shift k) ∧ (w.busWrite 0x3f [v]).2.cache = w.cache := by
  obtain ⟨k, hk, hcache⟩ := pre_tx hw
  refine ⟨k, ?_⟩
  unfold World.busWrite
  generalize w.pre = p at hk hcache
  obtain ⟨w1, code⟩ := p
  cases code with
  | some c => exact ⟨⟨hk.chip, hk.sched, hk.cache⟩, hcache⟩
  | none =>
    simp only
    rw [writeN_one]
    exact ⟨⟨write_ack_tx hk.chip v hv, hk.sched, hk.cache⟩, hcache⟩

/-- a burst write into the FIFO -/
theorem busWriteBuf_fifo_tx {n0 cached w g} (hw : TxWorld n0 cached w g) (d : List UInt8) :
    ∃ k, (w.busWriteBuf 0 d).2.cache = w.cache ∧
      match (w.busWriteBuf 0 d).1 with
      | .ok _ => (g.shift k).fifo.length + d.length ≤ 64 →
          TxWorld n0 cached (w.busWriteBuf 0 d).2 { g.shift k with fifo := (g.shift k).fifo ++ d, handed := (g.shift k).handed ++ d }
      | .error _ => TxWorld n0 cached (w.busWriteBuf 0 d).2 (g.shift k) := by
  obtain ⟨k, hk, hcache⟩ := pre_tx hw
  refine ⟨k, ?_⟩
  unfold World.busWriteBuf
  generalize w.pre = p at hk hcache
  obtain ⟨w1, code⟩ := p
  cases code with
  | some c => exact ⟨hcache, ⟨hk.chip, hk.sched, hk.cache⟩⟩
  | none =>
    simp only
    refine ⟨hcache, fun hroom => ?_⟩
    have hroom' : w1.chip.fifo.length + d.length ≤ 64 := by rw [hk.chip.fifo]; exact hroom
    rw [writeN_fifo_fsk d _ hk.chip.fsk hroom']
    exact ⟨⟨by show w1.chip.fifo ++ d = _; rw [hk.chip.fifo], hk.chip.fsk, hk.chip.thr, hk.chip.flags, hk.chip.ovf⟩, hk.sched, hk.cache⟩

theorem store_single_wf {k : Cache} (wk : k.WF) (a : Nat) (v : UInt8) : (k.store a [v]).WF := by
  rw [Cache.store_cons]; exact Cache.put_wf wk a v

theorem not_live {g : TxG} (hd : ¬g.live) : g.poison = true ∨ g.ended = true := by
  unfold TxG.live at hd
  cases hp : g.poison <;> cases he : g.ended <;> simp_all

theorem R_dead {g : TxG} (hd : ¬g.live) (q : Req) (a : Ans) : txE.R g q a g := by
  show txR g q a g
  unfold txR
  rw [if_pos (not_live hd)]

theorem abs_dead {n0 cached} {g : TxG} (hd : ¬g.live) (w : World) : txAbs n0 cached w g := by
  rcases not_live hd with h | h
  · exact Or.inl h
  · exact Or.inr (Or.inl h)

theorem abs_live {n0 cached w} {g : TxG} (hl : g.live) (ha : txAbs n0 cached w g) : TxWorld n0 cached w g := by
  rcases ha with h | h | h
  · rw [hl.1] at h; cases h
  · rw [hl.2] at h; cases h
  · exact h

theorem rread_bus {n0 cached w g} (hw : TxWorld n0 cached w g) :
    Shadow.rread cached w 0x3f = Shadow.busStep1 w 0x3f ∨ Shadow.rread cached w 0x3f = .ub .oobShadow := by
  unfold Shadow.rread
  cases cached with
  | false => left; rfl
  | true =>
    simp only [Bool.not_true, Bool.false_eq_true, ↓reduceIte]
    by_cases hs : 0x3f ≥ w.cache.size
    · right; rw [if_pos hs]
    · rw [if_neg hs]
      have hwf := hw.cache rfl
      have : w.cache.isIgnore 0x3f = true := hwf.vol 0x3f (by show 0x3f < Gen.MAX_NUMBER_OF_REGISTERS; decide) (by decide)
      left; rw [if_pos this]

theorem busStep1_eq (w : World) (reg : Nat) :
    Shadow.busStep1 w reg = .ok ((w.busRead reg 1).1.map UInt32.toUInt8) (w.busRead reg 1).2 := by
  unfold Shadow.busStep1
  generalize w.busRead reg 1 = p
  obtain ⟨r, w1⟩ := p
  rfl

theorem TxWorld.irq {n0 cached w} {g : TxG} (h : TxWorld n0 cached w g) (v : UInt8) :
    TxWorld n0 cached w { g with irq := v } := ⟨h.chip, h.sched, h.cache⟩

/-- **the interpreter over the chip model is an instance of the transmit environment**: in
    either build, with any schedule of modulator events (`txShift`, `txSent`) before any
    transfer, any set of failing transfers and any application reaction inside callbacks -/
theorem tx_covers (n0 : Nat) (cached : Bool) (onCb : CbEvent → Handle → World → Outcome Handle) :
    Covers txE cached onCb (txAbs n0 cached) where
  sread := by
    intro w g reg n ha
    cases hs : Shadow.sread cached w reg n with
    | ub u => trivial
    | ok r w' =>
      by_cases hl : g.live
      · exact ⟨{ g with poison := true }, (txR_live hl _ _ _).mpr rfl, Or.inl rfl⟩
      · exact ⟨g, R_dead hl _ _, abs_dead hl _⟩
  bread := by
    intro w g reg n ha
    by_cases hl : g.live
    · exact ⟨{ g with poison := true }, (txR_live hl _ _ _).mpr rfl, Or.inl rfl⟩
    · exact ⟨g, R_dead hl _ _, abs_dead hl _⟩
  rawbread := by
    intro w g reg n ha
    by_cases hl : g.live
    · exact ⟨{ g with poison := true }, (txR_live hl _ _ _).mpr rfl, Or.inl rfl⟩
    · exact ⟨g, R_dead hl _ _, abs_dead hl _⟩
  cb := by
    intro w g e h ha
    cases ho : onCb e h w with
    | ub u w' => trivial
    | done h' w' => exact ⟨_, rfl, Or.inr (Or.inl rfl)⟩
  rread := by
    intro w g reg ha
    cases hs : Shadow.rread cached w reg with
    | ub u => trivial
    | ok r w' =>
      by_cases hl : g.live
      · by_cases hreg : reg = 0x3f
        · subst hreg
          have hw := abs_live hl ha
          rcases rread_bus hw with hb | hb
          · rw [hb, busStep1_eq] at hs
            cases hs
            obtain ⟨k, hk, _, hfl⟩ := busRead_flags_tx hw
            cases hr : (w.busRead 0x3f 1).1 with
            | error c =>
              refine ⟨g.shift k, (txR_live hl _ _ _).mpr ?_, Or.inr (Or.inr hk)⟩
              exact ⟨k, rfl⟩
            | ok v =>
              rw [hr] at hfl
              refine ⟨{ g.shift k with irq := v.toUInt8 }, (txR_live hl _ _ _).mpr ?_, Or.inr (Or.inr (hk.irq _))⟩
              exact ⟨k, rfl, hfl⟩
          · rw [hb] at hs; cases hs
        · refine ⟨{ g with poison := true }, (txR_live hl _ _ _).mpr ?_, Or.inl rfl⟩
          unfold txRLive
          simp only [hreg, ↓reduceIte]
      · exact ⟨g, R_dead hl _ _, abs_dead hl _⟩
  swrite := by
    intro w g reg d ha
    cases hs : Shadow.swrite cached w reg d with
    | ub u => trivial
    | ok r w' =>
      by_cases hl : g.live
      · by_cases hc : reg = 0x3f ∧ d.length = 1 ∧ d.headD 0 &&& 0x10 = 0
        · obtain ⟨hreg, hlen, hv⟩ := hc
          subst hreg
          obtain ⟨v, rfl⟩ : ∃ v, d = [v] := by
            match d, hlen with
            | [v], _ => exact ⟨v, rfl⟩
          have hv' : v &&& 0x10 = 0 := hv
          have hw := abs_live hl ha
          obtain ⟨k, hk, hcache⟩ := busWrite_ack_tx hw v hv'
          refine ⟨g.shift k, (txR_live hl _ _ _).mpr ?_, Or.inr (Or.inr ?_)⟩
          · unfold txRLive
            simp only [List.length_singleton, List.headD_cons, hv', and_self, ↓reduceIte]
            exact ⟨k, rfl⟩
          · unfold Shadow.swrite at hs
            generalize w.busWrite 0x3f [v] = p at hs hk hcache
            obtain ⟨r1, w1⟩ := p
            cases r1 with
            | error c => simp only at hs; cases hs; exact hk
            | ok u =>
              simp only at hs
              cases cached with
              | false => simp only [Bool.not_false, ↓reduceIte] at hs; cases hs; exact hk
              | true =>
                simp only [Bool.not_true, Bool.false_eq_true, ↓reduceIte, Shadow.swriteStore,
                  show ¬(0x3f = Gen.REGOPMODE) by decide] at hs
                split at hs
                · cases hs
                · cases hs
                  exact ⟨hk.chip, hk.sched, fun _ => store_single_wf (hk.cache rfl) _ _⟩
        · refine ⟨{ g with poison := true }, (txR_live hl _ _ _).mpr ?_, Or.inl rfl⟩
          unfold txRLive
          simp only [hc, ↓reduceIte]
      · exact ⟨g, R_dead hl _ _, abs_dead hl _⟩
  bwrite := by
    intro w g reg d ha
    cases hs : Shadow.bwrite cached w reg d with
    | ub u => trivial
    | ok r w' =>
      by_cases hl : g.live
      · by_cases hreg : reg = 0
        · subst hreg
          have hw := abs_live hl ha
          obtain ⟨k, hcache, hres⟩ := busWriteBuf_fifo_tx hw d
          unfold Shadow.bwrite at hs
          generalize w.busWriteBuf 0 d = p at hs hres hcache
          obtain ⟨r1, w1⟩ := p
          have hw' : w' = w1 ∧ r = r1 := by
            cases r1 with
            | error c => simp only at hs; cases hs; exact ⟨rfl, rfl⟩
            | ok u =>
              simp only at hs
              cases cached with
              | false => simp only [Bool.not_false, ↓reduceIte] at hs; cases hs; exact ⟨rfl, rfl⟩
              | true =>
                simp only [Bool.not_true, Bool.false_eq_true, ↓reduceIte, Shadow.bwriteStore,
                  show (0 = Gen.REGFIFO) from rfl] at hs
                cases hs; exact ⟨rfl, rfl⟩
          obtain ⟨rfl, rfl⟩ := hw'
          cases r with
          | error c =>
            refine ⟨g.shift k, (txR_live hl _ _ _).mpr ?_, Or.inr (Or.inr hres)⟩
            exact ⟨k, rfl⟩
          | ok u =>
            refine ⟨(g.shift k).put d, (txR_live hl _ _ _).mpr ⟨k, rfl⟩, ?_⟩
            unfold TxG.put
            split
            · rename_i hroom
              exact Or.inr (Or.inr (hres hroom))
            · exact Or.inl rfl
        · refine ⟨{ g with poison := true }, (txR_live hl _ _ _).mpr ?_, Or.inl rfl⟩
          unfold txRLive
          simp only [hreg, ↓reduceIte]
      · exact ⟨g, R_dead hl _ _, abs_dead hl _⟩

end Sx
