import Sx.Lemmas.ChipOps
/- The LoRa data buffer behind address 0, and `memcpy` into the packet buffer. -/
namespace Sx
open Mem Chip

theorem wrs_eq (d : List UInt8) : ∀ (m : Mem) (a : Nat), a + d.length ≤ m.length →
    m.wrs a d = m.take a ++ d ++ m.drop (a + d.length) := by
  induction d with
  | nil => intro m a _; simp [Mem.wrs]
  | cons v vs ih =>
    intro m a hlen
    simp only [List.length_cons] at hlen
    have ha : a < m.length := by omega
    simp only [Mem.wrs]
    rw [ih (m.wr a v) (a + 1) (by simp; omega)]
    simp only [Mem.wr, List.set_eq_take_append_cons_drop, ha, ↓reduceIte]
    have hl : (List.take a m).length = a := by simp [List.length_take]; omega
    have h1 : (List.take a m ++ v :: List.drop (a + 1) m).take (a + 1) = List.take a m ++ [v] := by
      rw [List.take_append, hl]
      have : List.take (a + 1) (List.take a m) = List.take a m := by
        apply List.take_of_length_le; omega
      rw [this]
      simp
    have h2 : (List.take a m ++ v :: List.drop (a + 1) m).drop (a + 1 + vs.length) = List.drop (a + (vs.length + 1)) m := by
      rw [List.drop_append, hl]
      have h3 : List.drop (a + 1 + vs.length) (List.take a m) = [] := by
        apply List.drop_of_length_le; omega
      have h4 : a + 1 + vs.length - a = vs.length + 1 := by omega
      rw [h3, h4]
      simp only [List.nil_append, List.drop_succ_cons, List.drop_drop]
      congr 1; omega
    rw [h1, h2]
    simp [List.length_cons]

theorem wrs_take (m : Mem) (d : List UInt8) (h : d.length ≤ m.length) : (m.wrs 0 d).take d.length = d := by
  rw [wrs_eq d m 0 (by omega)]
  simp

theorem wr_wr_same (m : Mem) (a : Nat) (v w : UInt8) : (m.wr a v).wr a w = m.wr a w := by
  simp [Mem.wr, List.set_set]

theorem u8_add_one_toNat (p : UInt8) : (p + 1).toNat = (p.toNat + 1) % 256 := by
  simp [UInt8.toNat_add]

theorem u8_ofNat_succ (n : Nat) : UInt8.ofNat (n + 1) = UInt8.ofNat n + 1 := by
  apply UInt8.toNat_inj.mp
  simp [UInt8.toNat_add, UInt8.toNat_ofNat', Nat.add_mod]

theorem u8_add_assoc' (p : UInt8) (n : Nat) : p + 1 + UInt8.ofNat n = p + UInt8.ofNat (n + 1) := by
  rw [u8_ofNat_succ]
  apply UInt8.toNat_inj.mp
  simp only [UInt8.toNat_add]
  omega

theorem read_fifo_lora (c : Chip) (hl : c.isLora = true) :
    c.read 0 = (c.buf.rd (c.lora.rd 0x0d).toNat, { c with lora := c.lora.wr 0x0d (c.lora.rd 0x0d + 1) }) := by
  simp [Chip.read, hl]

/-- a burst read at address 0 in LoRa mode returns the buffer from the FIFO pointer on, wrapping
    at 256, and advances the pointer by the number of bytes read -/
theorem readN_fifo_lora (c : Chip) (hl : c.isLora = true) (wf : c.WF) (n : Nat) :
    c.readN 0 n = ((List.range n).map (fun i => c.buf.rd (((c.lora.rd 0x0d).toNat + i) % 256)),
      if n = 0 then c else { c with lora := c.lora.wr 0x0d (c.lora.rd 0x0d + UInt8.ofNat n) }) := by
  induction n generalizing c with
  | zero => simp [readN]
  | succ n ih =>
    have hlen : 0x0d < c.lora.length := by rw [wf.hl]; decide
    have wf1 : ({ c with lora := c.lora.wr 0x0d (c.lora.rd 0x0d + 1) } : Chip).WF := ⟨wf.hs, by simp [wf.hl], wf.hf, wf.hb⟩
    simp only [readN, read_fifo_lora c hl, ↓reduceIte]
    rw [ih _ (by exact hl) wf1]
    simp only [rd_wr_same _ _ _ hlen, Nat.add_one_ne_zero, ↓reduceIte]
    congr 1
    · simp only [List.range_succ_eq_map, List.map_cons, List.map_map, Nat.add_zero]
      congr 1
      · have := (c.lora.rd 0x0d).toNat_lt
        congr 1; omega
      · apply List.map_congr_left
        intro i _
        simp only [Function.comp, u8_add_one_toNat]
        congr 1
        omega
    · split
      · rename_i h0; subst h0
        simp
      · simp only [wr_wr_same, u8_add_assoc']

end Sx

namespace Sx
open Mem Chip

/-- the LoRa data buffer after a burst write of `d` starting at pointer `p` -/
def bufAfter (buf : Mem) (p : UInt8) : List UInt8 → Mem
  | [] => buf
  | v :: vs => bufAfter (buf.wr p.toNat v) (p + 1) vs

theorem bufAfter_length (buf : Mem) (p : UInt8) (d : List UInt8) : (bufAfter buf p d).length = buf.length := by
  induction d generalizing buf p with
  | nil => rfl
  | cons v vs ih => simp [bufAfter, ih]

theorem write_fifo_lora (c : Chip) (v : UInt8) (hl : c.isLora = true) :
    c.write 0 v = { c with buf := c.buf.wr (c.lora.rd 0x0d).toNat v, lora := c.lora.wr 0x0d (c.lora.rd 0x0d + 1) } := by
  simp [Chip.write, hl]

theorem writeN_fifo_lora (c : Chip) (hl : c.isLora = true) (wf : c.WF) (d : List UInt8) :
    c.writeN 0 d = if d = [] then c else
      { c with buf := bufAfter c.buf (c.lora.rd 0x0d) d,
               lora := c.lora.wr 0x0d (c.lora.rd 0x0d + UInt8.ofNat d.length) } := by
  induction d generalizing c with
  | nil => simp [writeN]
  | cons v vs ih =>
    have hlen : 0x0d < c.lora.length := by rw [wf.hl]; decide
    have wf1 : ({ c with buf := c.buf.wr (c.lora.rd 0x0d).toNat v, lora := c.lora.wr 0x0d (c.lora.rd 0x0d + 1) } : Chip).WF :=
      ⟨wf.hs, by simp [wf.hl], wf.hf, by simp [wf.hb]⟩
    simp only [writeN, ↓reduceIte, write_fifo_lora c v hl, List.cons_ne_nil]
    rw [ih _ (by exact hl) wf1]
    simp only [rd_wr_same _ _ _ hlen, wr_wr_same, bufAfter, List.length_cons]
    split
    · rename_i h0; subst h0
      simp [bufAfter]
    · simp only [u8_add_assoc']

/-- positions a burst of `n` bytes from `p` does not reach keep their content -/
theorem bufAfter_other (buf : Mem) (p : UInt8) (d : List UInt8) (x : Nat)
    (hx : ∀ j, j < d.length → (p.toNat + j) % 256 ≠ x) : (bufAfter buf p d).rd x = buf.rd x := by
  induction d generalizing buf p with
  | nil => rfl
  | cons v vs ih =>
    simp only [bufAfter]
    rw [ih]
    · have h0 := hx 0 (by simp)
      have hp := p.toNat_lt
      simp only [Nat.add_zero, Nat.mod_eq_of_lt hp] at h0
      exact rd_wr_ne _ _ _ _ h0
    · intro j hj
      have := hx (j + 1) (by simp; omega)
      rw [u8_add_one_toNat]
      intro e; apply this; rw [← e]; omega

/-- a burst of at most 256 bytes leaves byte `i` of the data at buffer address `(p + i) mod 256` -/
theorem bufAfter_data (buf : Mem) (hb : buf.length = 256) (p : UInt8) (d : List UInt8) (hd : d.length ≤ 256) (i : Nat)
    (hi : i < d.length) : (bufAfter buf p d).rd ((p.toNat + i) % 256) = d.getD i 0 := by
  induction d generalizing buf p i with
  | nil => simp at hi
  | cons v vs ih =>
    simp only [bufAfter]
    have hp := p.toNat_lt
    cases i with
    | zero =>
      simp only [Nat.add_zero, Nat.mod_eq_of_lt hp, List.getD_cons_zero]
      rw [bufAfter_other]
      · exact rd_wr_same _ _ _ (by rw [hb]; exact hp)
      · intro j hj
        rw [u8_add_one_toNat]
        simp only [List.length_cons] at hd
        omega
    | succ k =>
      simp only [List.getD_cons_succ]
      have := ih (buf.wr p.toNat v) (by simp [hb]) (p + 1) (by simp at hd; omega) k (by simp at hi; omega)
      rw [u8_add_one_toNat] at this
      rw [← this]
      congr 1
      omega

end Sx
