import Sx.Lemmas.WpLib
/-
  Register-file view of the chip for configuration calls (C09): reads and writes of *plain*
  addresses (no side effect in the selected page, not the page selector) act on `cell`/`setCell`,
  and a configuration call is a list of bit-field updates.
-/
namespace Sx
open Mem Chip Sx.Model DM

namespace Chip

/-- an address whose read returns the stored byte and whose write stores the byte, in the page
    currently selected, and that does not select the page -/
def plain (c : Chip) (a : Nat) : Prop :=
  2 ≤ a ∧ a < 128 ∧ ¬(c.isLora = true ∧ a = 0x12) ∧ ¬(c.isLora = false ∧ (a = 0x3e ∨ a = 0x3f))

instance (c : Chip) (a : Nat) : Decidable (c.plain a) := by unfold plain; exact inferInstance

theorem read_plain (c : Chip) (a : Nat) (hp : c.plain a) : c.read a = (c.cell a, c) := by
  obtain ⟨h2, h128, _, hf⟩ := hp
  have hm : a % 128 = a := Nat.mod_eq_of_lt h128
  have h0 : a % 128 ≠ 0 := by omega
  rw [read_nonzero a h0, hm]
  unfold peek
  have : ¬(a = 0x3f ∧ (!c.isLora) = true) := by
    intro ⟨e, hl⟩
    exact hf ⟨by simpa using hl, Or.inr e⟩
  rw [if_neg this]

theorem readN_plain (c : Chip) (a : Nat) (hp : c.plain a) : c.readN a 1 = ([c.cell a], c) := by
  simp [readN, read_plain c a hp]

theorem write_plain (c : Chip) (a : Nat) (v : UInt8) (hp : c.plain a) : c.write a v = c.setCell a v := by
  obtain ⟨h2, h128, hl, hf⟩ := hp
  have hm : a % 128 = a := Nat.mod_eq_of_lt h128
  have h0 : a ≠ 0 := by omega
  unfold write
  simp only [hm, h0, ↓reduceIte]
  have h1 : ¬(c.isLora = true ∧ a = 0x12) := hl
  have h2' : ¬((!c.isLora) = true ∧ a = 0x3e) := fun ⟨x, y⟩ => hf ⟨by simpa using x, Or.inl y⟩
  have h3 : ¬((!c.isLora) = true ∧ a = 0x3f) := fun ⟨x, y⟩ => hf ⟨by simpa using x, Or.inr y⟩
  rw [if_neg h1, if_neg h2', if_neg h3]

theorem isLora_setCell (c : Chip) (a : Nat) (v : UInt8) (h1 : a ≠ 1) : (c.setCell a v).isLora = c.isLora := by
  unfold setCell
  split
  · split <;> rfl
  · unfold isLora
    simp only [rd_wr_ne _ a 1 v h1]

theorem cell_setCell_same (c : Chip) (wf : c.WF) (a : Nat) (v : UInt8) (ha : a < 128) (h1 : a ≠ 1) :
    (c.setCell a v).cell a = v := by
  have hl := isLora_setCell c a v h1
  unfold cell
  rw [hl]
  unfold setCell
  by_cases hp : inPage a = true
  · simp only [hp, ↓reduceIte]
    by_cases hlo : c.isLora = true
    · simp only [hlo, ↓reduceIte]; exact rd_wr_same _ _ _ (by rw [wf.hl]; exact ha)
    · simp only [hlo, Bool.false_eq_true, ↓reduceIte]; exact rd_wr_same _ _ _ (by rw [wf.hf]; exact ha)
  · simp only [hp, Bool.false_eq_true, ↓reduceIte]; exact rd_wr_same _ _ _ (by rw [wf.hs]; exact ha)

theorem cell_setCell_ne (c : Chip) (a b : Nat) (v : UInt8) (hab : a ≠ b) (h1 : a ≠ 1) :
    (c.setCell a v).cell b = c.cell b := by
  have hl := isLora_setCell c a v h1
  unfold cell
  rw [hl]
  unfold setCell
  by_cases hp : inPage a = true
  · simp only [hp, ↓reduceIte]
    by_cases hlo : c.isLora = true
    · simp only [hlo, ↓reduceIte, rd_wr_ne _ a b v hab]
    · simp only [hlo, Bool.false_eq_true, ↓reduceIte, rd_wr_ne _ a b v hab]
  · simp only [hp, Bool.false_eq_true, ↓reduceIte, rd_wr_ne _ a b v hab]

theorem wf_setCell (c : Chip) (wf : c.WF) (a : Nat) (v : UInt8) : (c.setCell a v).WF := by
  unfold setCell
  split
  · split
    · exact ⟨wf.hs, by simp [wf.hl], wf.hf, wf.hb⟩
    · exact ⟨wf.hs, wf.hl, by simp [wf.hf], wf.hb⟩
  · exact ⟨by simp [wf.hs], wf.hl, wf.hf, wf.hb⟩

theorem plain_setCell (c : Chip) (a b : Nat) (v : UInt8) (h1 : a ≠ 1) : (c.setCell a v).plain b ↔ c.plain b := by
  unfold plain
  rw [isLora_setCell c a v h1]

theorem buf_setCell (c : Chip) (a : Nat) (v : UInt8) : (c.setCell a v).buf = c.buf := by
  unfold setCell; split <;> (try split) <;> rfl
theorem fifo_setCell (c : Chip) (a : Nat) (v : UInt8) : (c.setCell a v).fifo = c.fifo := by
  unfold setCell; split <;> (try split) <;> rfl

/-- the page that is not selected is not touched -/
theorem other_page_setCell (c : Chip) (a : Nat) (v : UInt8) :
    (c.isLora = true → (c.setCell a v).fsk = c.fsk) ∧ (c.isLora = false → (c.setCell a v).lora = c.lora) := by
  unfold setCell
  constructor <;> intro hl <;> split <;> simp [hl]

end Chip

/-- one bit field of one register: the bits the call owns and the value it puts there -/
structure Field where
  reg : Nat
  mask : UInt8      -- the bits of the field
  value : UInt8     -- the encoding of the argument, positioned inside the field
  deriving Repr, DecidableEq

/-- the register update a field stands for -/
def Chip.setField (c : Chip) (f : Field) : Chip := c.setCell f.reg ((c.cell f.reg &&& ~~~ f.mask) ||| f.value)

def Chip.setFields (c : Chip) (fs : List Field) : Chip := fs.foldl Chip.setField c

/-- a list of fields a call may legitimately own: plain registers, values inside their fields -/
def Field.Ok (c : Chip) (f : Field) : Prop := c.plain f.reg ∧ f.value &&& ~~~ f.mask = 0

theorem and_or_keep (x m v : UInt8) (hv : v &&& ~~~ m = 0) : ((x &&& ~~~ m) ||| v) &&& ~~~ m = x &&& ~~~ m := by
  have : ∀ x m v : BitVec 8, v &&& ~~~ m = 0 → ((x &&& ~~~ m) ||| v) &&& ~~~ m = x &&& ~~~ m := by
    intro x m v h
    ext i
    have hi := congrArg (fun w => w[i]) h
    simp at hi ⊢
    cases hx : x[i] <;> cases hm : m[i] <;> cases hvv : v[i] <;> simp_all
  have h' : v.toBitVec &&& ~~~ m.toBitVec = 0 := by
    have := congrArg UInt8.toBitVec hv
    simpa using this
  apply UInt8.toBitVec_inj.mp
  simpa using this x.toBitVec m.toBitVec v.toBitVec h'

theorem and_or_field (x m v : UInt8) (hv : v &&& ~~~ m = 0) : ((x &&& ~~~ m) ||| v) &&& m = v := by
  have : ∀ x m v : BitVec 8, v &&& ~~~ m = 0 → ((x &&& ~~~ m) ||| v) &&& m = v := by
    intro x m v h
    ext i
    have hi := congrArg (fun w => w[i]) h
    simp at hi ⊢
    cases hx : x[i] <;> cases hm : m[i] <;> cases hvv : v[i] <;> simp_all
  have h' : v.toBitVec &&& ~~~ m.toBitVec = 0 := by
    have := congrArg UInt8.toBitVec hv
    simpa using this
  apply UInt8.toBitVec_inj.mp
  simpa using this x.toBitVec m.toBitVec v.toBitVec h'

/-- **Frame rule for one field.** The bits outside the field keep their value, the field holds the
    value, every other register of the selected page and of the shared area is as before, and
    nothing else of the chip changes. -/
theorem setField_frame (c : Chip) (wf : c.WF) (f : Field) (hok : f.Ok c) :
    (c.setField f).cell f.reg &&& ~~~ f.mask = c.cell f.reg &&& ~~~ f.mask ∧
    (c.setField f).cell f.reg &&& f.mask = f.value ∧
    (∀ b, b ≠ f.reg → (c.setField f).cell b = c.cell b) ∧
    (c.setField f).isLora = c.isLora ∧ (c.setField f).buf = c.buf ∧ (c.setField f).fifo = c.fifo ∧
    (c.setField f).WF := by
  obtain ⟨hp, hv⟩ := hok
  have h1 : f.reg ≠ 1 := by have := hp.1; omega
  unfold Chip.setField
  refine ⟨?_, ?_, ?_, isLora_setCell _ _ _ h1, buf_setCell _ _ _, fifo_setCell _ _ _, wf_setCell _ wf _ _⟩
  · rw [cell_setCell_same c wf _ _ hp.2.1 h1]; exact and_or_keep _ _ _ hv
  · rw [cell_setCell_same c wf _ _ hp.2.1 h1]; exact and_or_field _ _ _ hv
  · intro b hb; exact cell_setCell_ne c _ b _ (Ne.symm hb) h1

theorem and_or_keep_sup (x m v M : UInt8) (hv : v &&& ~~~ m = 0) (hsub : m &&& ~~~ M = 0) :
    ((x &&& ~~~ m) ||| v) &&& ~~~ M = x &&& ~~~ M := by
  have : ∀ x m v M : BitVec 8, v &&& ~~~ m = 0 → m &&& ~~~ M = 0 → ((x &&& ~~~ m) ||| v) &&& ~~~ M = x &&& ~~~ M := by
    intro x m v M h1 h2
    ext i
    have hi := congrArg (fun w => w[i]) h1
    have hj := congrArg (fun w => w[i]) h2
    simp at hi hj ⊢
    cases hx : x[i] <;> cases hm : m[i] <;> cases hvv : v[i] <;> cases hMM : M[i] <;> simp_all
  have h1' : v.toBitVec &&& ~~~ m.toBitVec = 0 := by
    have := congrArg UInt8.toBitVec hv
    simpa using this
  have h2' : m.toBitVec &&& ~~~ M.toBitVec = 0 := by
    have := congrArg UInt8.toBitVec hsub
    simpa using this
  apply UInt8.toBitVec_inj.mp
  simpa using this x.toBitVec m.toBitVec v.toBitVec M.toBitVec h1' h2'

theorem Field.Ok_setField {c : Chip} {f g : Field} (hf : f.Ok c) (hg : g.Ok c) : g.Ok (c.setField f) := by
  have h1 : f.reg ≠ 1 := by have := hf.1.1; omega
  exact ⟨(plain_setCell c _ _ _ h1).mpr hg.1, hg.2⟩

/-- **Frame rule for a configuration call.** After a list of field updates on plain registers,
    with each value inside its field: in every register `b`, every bit outside a mask `M` that
    covers the listed fields of `b` has its previous value (`M = 0` when `b` is not listed: the
    whole register is unchanged); the page selection, the LoRa buffer and the FIFO are untouched. -/
theorem setFields_frame (fs : List Field) (c : Chip) (wf : c.WF) (hok : ∀ f ∈ fs, f.Ok c) (b : Nat) (M : UInt8)
    (hM : ∀ f ∈ fs, f.reg = b → f.mask &&& ~~~ M = 0) :
    (c.setFields fs).cell b &&& ~~~ M = c.cell b &&& ~~~ M ∧
    (c.setFields fs).isLora = c.isLora ∧ (c.setFields fs).buf = c.buf ∧ (c.setFields fs).fifo = c.fifo ∧
    (c.setFields fs).WF := by
  induction fs generalizing c with
  | nil => exact ⟨rfl, rfl, rfl, rfl, wf⟩
  | cons f rest ih =>
    have hf := hok f (List.mem_cons_self)
    obtain ⟨k1, k2, k3, k4, k5, k6, k7⟩ := setField_frame c wf f hf
    have hok' : ∀ g ∈ rest, g.Ok (c.setField f) := fun g hg => Field.Ok_setField hf (hok g (List.mem_cons_of_mem _ hg))
    obtain ⟨j1, j2, j3, j4, j5⟩ := ih (c.setField f) k7 hok' (fun g hg => hM g (List.mem_cons_of_mem _ hg))
    show ((c.setField f).setFields rest).cell b &&& ~~~ M = _ ∧ ((c.setField f).setFields rest).isLora = _ ∧
      ((c.setField f).setFields rest).buf = _ ∧ ((c.setField f).setFields rest).fifo = _ ∧ ((c.setField f).setFields rest).WF
    refine ⟨?_, j2.trans k4, j3.trans k5, j4.trans k6, j5⟩
    rw [j1]
    by_cases hb : b = f.reg
    · subst hb
      have h1 : f.reg ≠ 1 := by have := hf.1.1; omega
      unfold Chip.setField
      rw [cell_setCell_same c wf _ _ hf.1.2.1 h1]
      exact and_or_keep_sup _ _ _ _ hf.2 (hM f List.mem_cons_self rfl)
    · rw [k3 b hb]

/-! ### weakest preconditions of plain accesses -/

theorem wp_rread_plain (reg : Nat) (h : Handle) (c : Chip) (bus : List BusEv) (cbs : List CbEvent)
    (Q : Except Code UInt8 → Handle → PState → Prop) (hp : c.plain reg) :
    wp (rread reg) h ⟨c, bus, cbs⟩ Q ↔ Q (.ok (c.cell reg)) h ⟨c, .r reg 1 (.ok (be32 [c.cell reg])) :: bus, cbs⟩ := by
  rw [wp_rread]
  simp only [readN_plain _ _ hp, be32_single]

theorem wp_swrite1_plain (reg : Nat) (v : UInt8) (h : Handle) (c : Chip) (bus : List BusEv) (cbs : List CbEvent)
    (Q : Except Code Unit → Handle → PState → Prop) (hp : c.plain reg) :
    wp (swrite reg [v]) h ⟨c, bus, cbs⟩ Q ↔ Q (.ok ()) h ⟨c.setCell reg v, .w reg [v] (.ok ()) :: bus, cbs⟩ := by
  rw [wp_swrite]
  simp only [writeN_one, write_plain _ _ _ hp]

theorem wp_appendRegister_plain (reg : Nat) (v m : UInt8) (h : Handle) (c : Chip) (bus : List BusEv) (cbs : List CbEvent)
    (Q : Except Code Unit → Handle → PState → Prop) (hp : c.plain reg) :
    wp (appendRegister reg v m) h ⟨c, bus, cbs⟩ Q ↔
      Q (.ok ()) h ⟨c.setCell reg ((c.cell reg &&& m) ||| v),
        .w reg [(c.cell reg &&& m) ||| v] (.ok ()) :: .r reg 1 (.ok (be32 [c.cell reg])) :: bus, cbs⟩ := by
  unfold appendRegister
  rw [wp_bind, wp_rread_plain _ _ _ _ _ _ hp]
  simp only
  rw [wp_swrite1_plain _ _ _ _ _ _ _ hp]

theorem wp_checkFskOok (h : Handle) (s : PState) (Q : Except Code Unit → Handle → PState → Prop) :
    wp checkFskOok h s Q ↔
      (if h.activeModem ≠ Gen.SX127x_MODULATION_FSK ∧ h.activeModem ≠ Gen.SX127x_MODULATION_OOK
       then Q (.error Gen.SX127X_ERR_INVALID_STATE) h s else Q (.ok ()) h s) := by
  unfold checkFskOok
  rw [wp_bind, wp_getH]
  simp only
  rw [wp_ite, wp_fail, wp_pure]

theorem plain_fsk (c : Chip) (hl : c.isLora = false) (a : Nat) (h : 2 ≤ a ∧ a < 128 ∧ a ≠ 0x3e ∧ a ≠ 0x3f) : c.plain a :=
  ⟨h.1, h.2.1, by simp [hl], by simp [hl, h.2.2.1, h.2.2.2]⟩

theorem plain_lora (c : Chip) (hl : c.isLora = true) (a : Nat) (h : 2 ≤ a ∧ a < 128 ∧ a ≠ 0x12) : c.plain a :=
  ⟨h.1, h.2.1, by simp [h.2.2], by simp [hl]⟩

/-- registers outside the paged window are plain in either page -/
theorem plain_shared (c : Chip) (a : Nat) (h : 2 ≤ a ∧ a < 128 ∧ a ≠ 0x12 ∧ a ≠ 0x3e ∧ a ≠ 0x3f) : c.plain a :=
  ⟨h.1, h.2.1, by simp [h.2.2.1], by simp [h.2.2.2.1, h.2.2.2.2]⟩

theorem plain_set (c : Chip) (a b : Nat) (v : UInt8) (h1 : a ≠ 1) (hp : c.plain b) : (c.setCell a v).plain b :=
  (plain_setCell c a b v h1).mpr hp

theorem full_write (y x : UInt8) : y &&& ~~~255 ||| x = x := by
  have : ~~~(255 : UInt8) = 0 := by decide
  rw [this]; simp

theorem wp_swrite2_plain (reg : Nat) (v w : UInt8) (h : Handle) (c : Chip) (bus : List BusEv) (cbs : List CbEvent)
    (Q : Except Code Unit → Handle → PState → Prop) (hp : c.plain reg) (hp2 : c.plain (reg + 1)) :
    wp (swrite reg [v, w]) h ⟨c, bus, cbs⟩ Q ↔
      Q (.ok ()) h ⟨(c.setCell reg v).setCell (reg + 1) w, .w reg [v, w] (.ok ()) :: bus, cbs⟩ := by
  rw [wp_swrite]
  have h0 : reg ≠ 0 := by have := hp.1; omega
  have h1 : reg ≠ 1 := by have := hp.1; omega
  simp only [writeN_two _ _ _ _ h0, write_plain _ _ _ hp, write_plain _ _ _ (plain_set c reg (reg + 1) v h1 hp2)]

theorem wp_swrite3_plain (reg : Nat) (v w x : UInt8) (h : Handle) (c : Chip) (bus : List BusEv) (cbs : List CbEvent)
    (Q : Except Code Unit → Handle → PState → Prop) (hp : c.plain reg) (hp2 : c.plain (reg + 1)) (hp3 : c.plain (reg + 2)) :
    wp (swrite reg [v, w, x]) h ⟨c, bus, cbs⟩ Q ↔
      Q (.ok ()) h ⟨((c.setCell reg v).setCell (reg + 1) w).setCell (reg + 2) x, .w reg [v, w, x] (.ok ()) :: bus, cbs⟩ := by
  rw [wp_swrite]
  have h0 : reg ≠ 0 := by have := hp.1; omega
  have h1 : reg ≠ 1 := by have := hp.1; omega
  have h2 : reg + 1 ≠ 1 := by omega
  have h3 : reg + 1 ≠ 0 := by omega
  simp only [writeN, h0, h3, ↓reduceIte, write_plain _ _ _ hp, write_plain _ _ _ (plain_set c reg (reg + 1) v h1 hp2),
    write_plain _ _ _ (plain_set _ (reg + 1) (reg + 1 + 1) w h2 (plain_set c reg (reg + 1 + 1) v h1 hp3))]

/-- discharge `(… .setCell …).plain a` from the page of the chip -/
macro "plain_tac" : tactic => `(tactic| (
  repeat (refine plain_set _ _ _ _ (by decide) ?_)
  first
  | exact plain_shared _ _ (by decide)
  | exact plain_fsk _ (by assumption) _ (by decide)
  | exact plain_lora _ (by assumption) _ (by decide)))

/-- symbolic execution of a configuration call over plain registers -/
macro "c09_run" : tactic => `(tactic| repeat (first
  | (rw [wp_appendRegister_plain]; case hp => plain_tac)
  | (rw [wp_swrite1_plain]; case hp => plain_tac)
  | (rw [wp_swrite2_plain]; (case hp => plain_tac); (case hp2 => plain_tac))
  | (rw [wp_swrite3_plain]; (case hp => plain_tac); (case hp2 => plain_tac); (case hp3 => plain_tac))
  | (rw [wp_rread_plain]; case hp => plain_tac)
  | rw [wp_modH] | rw [wp_pure] | rw [wp_bind]
  | dsimp only))

/-- the final chip is the list of field updates -/
macro "c09_fields" : tactic => `(tactic| (
  (try simp only [Chip.setFields, List.foldl, Chip.setField, full_write])
  (try rfl)
  done))

/-- the fields of a burst write of whole registers starting at `reg` -/
def regFields : Nat → List UInt8 → List Field
  | _, [] => []
  | reg, b :: bs => ⟨reg, 0xff, b⟩ :: regFields (reg + 1) bs

theorem writeN_regFields (d : List UInt8) (c : Chip) (reg : Nat)
    (hp : ∀ i, i < d.length → c.plain (reg + i)) : c.writeN reg d = c.setFields (regFields reg d) := by
  induction d generalizing c reg with
  | nil => rfl
  | cons b bs ih =>
    have hp0 : c.plain reg := hp 0 (by simp)
    have h0 : reg ≠ 0 := by have := hp0.1; omega
    have h1 : reg ≠ 1 := by have := hp0.1; omega
    unfold Chip.writeN regFields
    rw [if_neg h0, write_plain _ _ _ hp0]
    show _ = (c.setField ⟨reg, 0xff, b⟩).setFields (regFields (reg + 1) bs)
    have : c.setField ⟨reg, 0xff, b⟩ = c.setCell reg b := by
      unfold Chip.setField; simp only [full_write]
    rw [this]
    apply ih
    intro i hi
    have := hp (i + 1) (by simp; omega)
    rw [show reg + 1 + i = reg + (i + 1) by omega]
    exact plain_set c reg _ b h1 this

theorem readN_plain3 (c : Chip) (a : Nat) (h0 : c.plain a) (h1 : c.plain (a + 1)) (h2 : c.plain (a + 2)) :
    c.readN a 3 = ([c.cell a, c.cell (a + 1), c.cell (a + 2)], c) := by
  have ha : a ≠ 0 := by have := h0.1; omega
  have ha1 : a + 1 ≠ 0 := by omega
  simp [readN, read_plain c a h0, read_plain c (a + 1) h1, read_plain c (a + 1 + 1) h2, ha]

end Sx
