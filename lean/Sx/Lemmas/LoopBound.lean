import Sx.Lemmas.Safe
import Sx.Lemmas.Mem
/-
  The byte-wise drain loop of `sx127x_fsk_ook_read_payload_batch` is bounded by the packet buffer,
  not by the chip: every iteration stores one byte and the loop leaves as soon as the buffer is
  full.  In the model the loop carries fuel; here: with more fuel than the buffer has bytes, no
  path of the interrupt handler — whatever chip and bus answer — runs out of it.
-/
namespace Sx
open Sx.Model DM

/-- the only kind of undefined behaviour considered here: a loop of the model ran out of fuel -/
def FuelBad (u : UB) : Prop := u = .fuel

/-- the packet buffer keeps its size -/
def LI (cap : Nat) (h : Handle) : Prop := h.packet.length = cap

abbrev SafeL (cap : Nat) (x : DM α) : Prop := SafeI FuelBad (fun _ => True) (LI cap) x

variable {cap : Nat}

theorem l_packetStore (i : Nat) (v : UInt8) : SafeL cap (packetStore i v) := by
  unfold packetStore
  apply SafeI_getH_bind; intro h hh
  apply SafeI_ite
  · intro _; exact SafeI_setH _ (by show (h.packet.wr i v).length = cap; rw [Mem.length_wr]; exact hh)
  · intro _; exact SafeI_ub _ (fun e => by cases e)

theorem l_packetCopy (off : Nat) (d : List UInt8) : SafeL cap (packetCopy off d) := by
  unfold packetCopy
  apply SafeI_getH_bind; intro h hh
  apply SafeI_ite
  · intro _; exact SafeI_setH _ (by show (h.packet.wrs off d).length = cap; rw [Mem.length_wrs]; exact hh)
  · intro _; exact SafeI_ub _ (fun e => by cases e)

macro "l_mod" : tactic => `(tactic| (apply DM.SafeI_modH; intro _ hi; exact hi))
macro "l_ubx" : tactic => `(tactic| (apply DM.SafeI_ub; intro e; cases e))

/-- **the drain loop ends within the buffer**: started with more fuel than bytes are left in the
    buffer it never reaches the fuel limit -/
theorem l_drainLoop (hc16 : cap ≤ 65535) (fuel : Nat) (h : Handle) (hh : LI cap h) (hf : cap - h.received.toNat < fuel) : (drainLoop fuel h).Safe FuelBad (fun _ => True) (LI cap) := by
  induction fuel generalizing h with
  | zero => exact absurd hf (Nat.not_lt_zero _)
  | succ n ih =>
    unfold drainLoop
    rw [Safe_at_getH_bind]
    apply Safe_at_ite
    · intro _; exact (Safe_at_fail _ _).mpr hh
    · intro hlt
      have hidx : h.received.toNat < h.packet.length := by omega
      apply Safe_at_rread_bind _ _ _ hh; intro v
      apply Safe_at_packetStore_bind _ _ _ _ hidx
      rw [Safe_at_modH_bind]
      have hh' : LI cap { h with packet := h.packet.wr h.received.toNat v, received := h.received + 1 } := by
        show (h.packet.wr h.received.toNat v).length = cap
        rw [Mem.length_wr]; exact hh
      apply Safe_at_rread_bind _ _ _ hh'; intro irq
      apply Safe_at_ite
      · intro _
        refine ih _ hh' ?_
        -- one byte more is stored: `received < cap ≤ 65535`, so the counter does not wrap
        have hcap : h.received.toNat < cap := by rw [← hh]; exact hidx
        have h16 : h.received.toNat < 65536 := h.received.toNat_lt
        have hadd : (h.received + 1).toNat = (h.received.toNat + 1) % 65536 := by
          rw [UInt16.toNat_add]; rfl
        show cap - (h.received + 1).toNat < n
        rw [hadd]
        rw [Nat.mod_eq_of_lt (by omega)]; omega
      · intro _; exact (Safe_at_pure _ _).mpr hh'

attribute [local irreducible] DM.rread DM.sread DM.swrite DM.bwrite DM.bread DM.rawbread DM.cb DM.modH DM.setH
  DM.getH DM.fail DM.ub DM.attempt DM.pure' DM.bind' DM.ofExcept freqOfRaw frfOf

theorem l_drain (hc16 : cap ≤ 65535) (fuel : Nat) (hf : cap < fuel) : SafeL cap (drainLoop fuel) :=
  ⟨fun h hh => l_drainLoop hc16 fuel h hh (by omega)⟩

macro "l0" : tactic => `(tactic| repeat (first
  | exact l_packetStore _ _ | exact l_packetCopy _ _
  | exact DM.SafeI_cb _ trivial
  | safe_step | l_mod | l_ubx | (apply DM.SafeI_ite <;> intro _) | split | dsimp only))

theorem l_fixedLen : SafeL cap fskOokReadFixedPacketLength := by unfold fskOokReadFixedPacketLength; l0
theorem l_addrFilt : SafeL cap fskOokIsAddressFiltered := by unfold fskOokIsAddressFiltered; l0
theorem l_header : SafeL cap readPayloadHeader := by
  unfold readPayloadHeader
  repeat (first
    | exact l_fixedLen | exact l_addrFilt | safe_step | l_mod | (apply DM.SafeI_ite <;> intro _) | split | dsimp only)

theorem l_batch (hc16 : cap ≤ 65535) (fuel : Nat) (hf : cap < fuel) (b : Bool) : SafeL cap (fskOokReadPayloadBatch fuel b) := by
  unfold fskOokReadPayloadBatch
  repeat (first
    | exact l_header | (exact l_drain hc16 fuel hf) | (exact l_packetCopy _ _)
    | safe_step | l_mod | l_ubx | (apply DM.SafeI_ite <;> intro _) | split | dsimp only)

theorem l_rxCb : SafeL cap rxCallback := by unfold rxCallback; l0
theorem l_txCb : SafeL cap txCallback := by unfold txCallback; l0
theorem l_getRssi : SafeL cap fskOokGetRssi := by unfold fskOokGetRssi; l0

theorem l_fskIrq (hc16 : cap ≤ 65535) (fuel : Nat) (hf : cap < fuel) : SafeL cap (fskOokHandleInterrupt fuel) := by
  unfold fskOokHandleInterrupt
  repeat (first
    | (exact l_batch hc16 fuel hf _) | exact l_rxCb | exact l_txCb | (exact l_getRssi)
    | (apply DM.SafeI_modH; intro _ hi; exact hi)
    | safe_step | l_ubx | (apply DM.SafeI_ite <;> intro _) | split | dsimp only)

theorem l_checkModulation (m : Nat) : SafeL cap (checkModulation m) := by unfold checkModulation; l0
theorem l_loraRead : SafeL cap loraRxReadPayload := by
  unfold loraRxReadPayload
  repeat (first
    | exact l_checkModulation _ | exact l_packetCopy _ _ | safe_step | l_mod | l_ubx | (apply DM.SafeI_ite <;> intro _) | split | dsimp only)
theorem l_loraGuard (e : UInt16) : SafeL cap (loraReadGuard e) := by
  unfold loraReadGuard
  repeat (first
    | exact l_loraRead | safe_step | l_mod | split | dsimp only)
theorem l_setFrequency (f : UInt64) : SafeL cap (setFrequency f) := by
  unfold setFrequency
  split
  · exact SafeI_swrite _ _
  · l_ubx
theorem l_loraIrq : SafeL cap loraHandleInterrupt := by
  unfold loraHandleInterrupt
  repeat (first
    | exact l_loraGuard _ | exact l_rxCb | exact l_txCb | (exact l_setFrequency _)
    | exact DM.SafeI_cb _ trivial
    | safe_step | l_mod | l_ubx | (apply DM.SafeI_ite <;> intro _) | split | dsimp only)

/-- **one invocation of the interrupt handler never runs out of loop fuel**, for every answer of
    chip and bus — a FIFO that never reports empty included —, once the fuel exceeds the size of
    the packet buffer: its only loop is bounded by the buffer -/
theorem l_irq (hc16 : cap ≤ 65535) (fuel : Nat) (hf : cap < fuel) : SafeL cap (handleInterrupt fuel) := by
  unfold handleInterrupt
  repeat (first
    | exact l_loraIrq | (exact l_fskIrq hc16 fuel hf) | safe_step | (apply DM.SafeI_ite <;> intro _) | dsimp only)

end Sx
