/- Bit-level facts about bytes with free variables, proved bit by bit (no `bv_decide`). -/
namespace Sx

/-- closes equalities between `UInt8` terms built from `&&&`, `|||` and literals -/
macro "byte_bits" : tactic => `(tactic| (
  apply UInt8.eq_of_toBitVec_eq
  simp only [UInt8.toBitVec_and, UInt8.toBitVec_or]
  ext i hi
  simp only [BitVec.getElem_and, BitVec.getElem_or]
  have hcases : i = 0 ∨ i = 1 ∨ i = 2 ∨ i = 3 ∨ i = 4 ∨ i = 5 ∨ i = 6 ∨ i = 7 := by omega
  rcases hcases with h | h | h | h | h | h | h | h <;> subst h <;> simp <;> decide))

theorem opmode_keep_80 (x y : UInt8) : (x &&& 0xc0 ||| y &&& 0x3f) &&& 0x80 = x &&& 0x80 := by byte_bits
theorem opmode_keep_40 (x y : UInt8) : (x &&& 0xc0 ||| y &&& 0x3f) &&& 0x40 = x &&& 0x40 := by byte_bits

end Sx
