import Sx.Lemmas.RxCovers
import Sx.Lemmas.GhostCbs
/-
  The receive environment as a `CbsEnv`: its answers never touch the ghost's callback list, its
  callback relation appends the event (used to state C03 on the chip model in terms of what an
  observation shows).
-/
namespace Sx
open Sx.Model

theorem RxG.take_cbs (g : RxG) (n : Nat) : (g.take n).cbs = g.cbs := by
  unfold RxG.take
  repeat (first | rfl | split | dsimp only)
theorem RxG.arrive_cbs (g : RxG) (k : Nat) (fin : Bool) : (g.arrive k fin).cbs = g.cbs := by
  unfold RxG.arrive
  repeat (first | rfl | split | dsimp only)

theorem rxAnswer_cbs {g g1 : RxG} {q : Req} {a : Ans} {g' : RxG} (h : rxAnswer g g1 q a g') (hp : ¬g'.poison = true) :
    g'.cbs = g1.cbs := by
  unfold rxAnswer at h
  split at h
  · split at h
    · obtain ⟨e, _⟩ := h; rw [e]
    · split at h
      · obtain ⟨e, _⟩ := h; rw [e]; exact RxG.take_cbs _ _
      · split at h
        · obtain ⟨e, _⟩ := h; rw [e]
        · split at h
          · obtain ⟨e, _⟩ := h; rw [e]
          · split at h
            · obtain ⟨e, _⟩ := h; rw [e]
            · split at h
              · rw [h]
              · exact absurd h hp
  · split at h
    · rw [h]; split <;> rfl
    · split at h
      · rw [h]
      · exact absurd h hp
  · split at h
    · obtain ⟨e, _⟩ := h; rw [e]; exact RxG.take_cbs _ _
    · exact absurd h hp
  · exact absurd h hp

theorem rxR_cbs {g : RxG} {q : Req} {a : Ans} {g' : RxG} (h : rxE.R g q a g') (hp : ¬g'.poison = true) : g'.cbs = g.cbs := by
  have h' : rxR g q a g' := h
  unfold rxR at h'
  split at h'
  · rw [h']
  · rcases h' with ⟨_, k, fin, _, ha⟩ | ⟨_, _, k, fin, _, e⟩
    · rw [rxAnswer_cbs ha hp, RxG.arrive_cbs]
    · rw [e]; exact RxG.arrive_cbs _ _ _

/-- the receive environment keeps the callback list except at callbacks, where it appends -/
def rxK : CbsEnv rxE where
  cbsOf := RxG.cbs
  bad g := g.poison = true
  R_keeps := fun _ _ _ _ h hp => rxR_cbs h hp
  R_bad := by
    intro g q a g' h hb
    have h' : rxR g q a g' := h
    unfold rxR at h'
    rw [if_pos (Or.inl hb)] at h'
    rw [h']; exact hb
  C_appends := by
    intro g e h h' g' hc _
    have : g' = { g with cbs := g.cbs ++ [e], ended := true } := hc
    rw [this]
  C_bad := by
    intro g e h h' g' hc hb
    have : g' = { g with cbs := g.cbs ++ [e], ended := true } := hc
    rw [this]; exact hb

end Sx
