import Sx.Lemmas.Ghost
/-
  The environment of an FSK/OOK reception in packet mode, as the datasheet describes it (C03):
  a 64-byte FIFO into which the demodulator may push any number of the frame's next bytes before
  each SPI transfer (and so also between the transfers of a running handler) as long as the FIFO
  does not fill up (the property's hypothesis: the host services the FIFO before it fills);
  after the last byte it raises PayloadReady, with CrcOk according to the CRC outcome
  (CrcAutoClearOff, as every `sx127x_crc_type_t` value sets it); flag bits reflect the FIFO
  level at the moment they are read (FifoThreshold 31); PayloadReady and CrcOk are cleared when
  the FIFO becomes empty; writing FifoOverrun flushes the FIFO; any transfer may fail, without
  effect on the chip.  Written with datasheet literals only.
-/
namespace Sx

structure RxG where
  fifo : List UInt8 := []      -- content of the chip FIFO, oldest first
  pending : List UInt8 := []   -- bytes of the frame not yet demodulated
  over : Bool := false         -- the end of the packet has been signalled (once per packet)
  ready : Bool := false        -- PayloadReady as stored
  crcFlag : Bool := false      -- CrcOk as stored
  crcGood : Bool := true       -- what the CRC check of this packet will say
  taken : List UInt8 := []     -- every byte the host has read from the FIFO, oldest first
  cfg1 : UInt8 := 0            -- RegPacketConfig1
  cfg2 : UInt8 := 0            -- RegPacketConfig2
  plen : UInt8 := 0            -- RegPayloadLength
  irq : UInt8 := 0             -- the last RegIrqFlags2 value read
  cbs : List CbEvent := []     -- callbacks so far
  ended : Bool := false        -- a callback has run: the application may have done anything
  faulted : Bool := false      -- some transfer has failed
  poison : Bool := false       -- FIFO read while empty, or a request foreign to the receive path

namespace RxG
def live (g : RxG) : Prop := g.poison = false ∧ g.ended = false

def crcOn (g : RxG) : Bool := g.cfg1 &&& 0x10 != 0

/-- the demodulator pushes `k` further bytes; `fin` says whether it signals the end of the
    packet if this was the last byte and it has not done so yet -/
def arrive (g : RxG) (k : Nat) (fin : Bool) : RxG :=
  let g1 := { g with fifo := g.fifo ++ g.pending.take k, pending := g.pending.drop k }
  if fin ∧ g1.pending = [] ∧ g.over = false then
    { g1 with over := true, ready := true, crcFlag := g.crcOn && g.crcGood }
  else g1

/-- admissible: the FIFO does not fill up -/
def Adm (g : RxG) (k : Nat) : Prop := k ≤ g.pending.length ∧ g.fifo.length + k ≤ 63

/-- the host reads `n` bytes from the FIFO -/
def take (g : RxG) (n : Nat) : RxG :=
  if n = 0 then g else
  if n ≤ g.fifo.length then
    let g1 := { g with fifo := g.fifo.drop n, taken := g.taken ++ g.fifo.take n }
    if g1.fifo = [] then { g1 with ready := false, crcFlag := false } else g1
  else { g with poison := true }

/-- FifoOverrun written to RegIrqFlags2 -/
def flush (g : RxG) : RxG := { g with fifo := [], ready := false, crcFlag := false }
end RxG

/-- what a read of RegIrqFlags2 returns while receiving -/
def RxFlagsOk (v : UInt8) (g : RxG) : Prop :=
  (v &&& 0x04 ≠ 0 ↔ g.ready = true) ∧ (v &&& 0x02 ≠ 0 ↔ g.crcFlag = true) ∧ v &&& 0x08 = 0 ∧ v &&& 0x10 = 0 ∧
  (v &&& 0x20 ≠ 0 ↔ g.fifo.length > 31) ∧ (v &&& 0x40 ≠ 0 ↔ g.fifo = []) ∧ v &&& 0x80 = 0

/-- the answer to request `q` and the ghost state after it, when the demodulator has brought the
    ghost state from `g` to `g1` before the transfer -/
def rxAnswer (g g1 : RxG) (q : Req) (a : Ans) (g' : RxG) : Prop :=
  match q, a with
  | .rread reg, .u8 (.ok v) =>
    if reg = 0x3f then g' = { g1 with irq := v } ∧ RxFlagsOk v g1
    else if reg = 0x00 then g' = g1.take 1 ∧ (1 ≤ g1.fifo.length → [v] = g1.fifo.take 1)
    else if reg = 0x30 then g' = g1 ∧ v = g.cfg1
    else if reg = 0x31 then g' = g1 ∧ v = g.cfg2
    else if reg = 0x32 then g' = g1 ∧ v = g.plen
    else if reg = 0x3e ∨ reg = 0x11 then g' = g1
    else g'.poison = true
  | .swrite reg d, .unit (.ok _) =>
    if reg = 0x3f ∧ d.length = 1 then
      g' = if d.headD 0 &&& 0x10 ≠ 0 then g1.flush else g1
    else if reg = 0x3e ∧ d.length = 1 then g' = g1
    else g'.poison = true
  | .bread reg n, .bytes (.ok d) =>
    if reg = 0x00 then g' = g1.take n ∧ d.length = n ∧ (n ≤ g1.fifo.length → d = g1.fifo.take n)
    else g'.poison = true
  | _, _ => g'.poison = true

def rxRLive (g : RxG) (q : Req) (a : Ans) (g' : RxG) : Prop :=
  ∃ k fin, g.Adm k ∧ rxAnswer g (g.arrive k fin) q a g'

/-- the transfer did not fail -/
def Ans.noErr : Ans → Prop
  | .u32 (.error _) => False | .u8 (.error _) => False | .unit (.error _) => False | .bytes (.error _) => False
  | _ => True

/-- the write with which the handler drops what is left of a packet after a failure -/
def FlushReq : Req → Prop
  | .swrite reg d => reg = 0x3f ∧ d.headD 0 &&& 0x10 ≠ 0
  | _ => False

def rxR (g : RxG) (q : Req) (a : Ans) (g' : RxG) : Prop :=
  if g.poison = true ∨ g.ended = true then g' = g else
  -- a transfer that fails has no effect on the chip (the radio side goes on as ever); the one
  -- transfer assumed not to fail is the recovery write itself
  (a.noErr ∧ rxRLive g q a g') ∨
  (¬a.noErr ∧ ¬FlushReq q ∧ ∃ k fin, g.Adm k ∧ g' = { g.arrive k fin with faulted := true })

/-- after a callback the application may have done anything: the session is over -/
def rxC (g : RxG) (e : CbEvent) (_h _h' : Handle) (g' : RxG) : Prop :=
  g' = { g with cbs := g.cbs ++ [e], ended := true }

def rxE : GEnv RxG := { R := rxR, C := rxC }

end Sx
