import Sx.Exec
import Sx.Lemmas.Chip
/-
  The register cache against the chip: well-formedness, coherence, and their preservation by
  every shadow-layer operation (the model of lines 107-205 of sx127x.c).
-/
namespace Sx
open Mem Chip

namespace Cache

def N : Nat := Gen.MAX_NUMBER_OF_REGISTERS

/-- shape of the shadow arrays, and: every address some page may change on its own is marked
    never-cache (obligation on the list installed by `sx127x_create`) -/
structure WF (k : Cache) : Prop where
  hs : k.sync.length = N
  hv : k.vals.length = N
  vol : ∀ a, a < N → Vol a = true → k.isIgnore a = true

/-- every cached entry equals the chip's content in the active page -/
def Coh (k : Cache) (c : Chip) : Prop := ∀ a, a < N → k.isCached a = true → k.vals.rd a = c.cell a

theorem not_cached_of_ignore {k : Cache} {a : Nat} (h : k.isIgnore a = true) : k.isCached a = false := by
  simp only [isIgnore, isCached, beq_iff_eq] at *
  rw [h]; decide

theorem not_vol_of_cached {k : Cache} (w : k.WF) {a : Nat} (ha : a < N) (h : k.isCached a = true) : Vol a = false := by
  cases hv : Vol a with
  | false => rfl
  | true =>
    have := not_cached_of_ignore (w.vol a ha hv)
    rw [this] at h; cases h

/-- the obligation on the generated never-cache list -/
theorem fresh_wf : Cache.fresh.WF := by
  refine ⟨by decide, by decide, ?_⟩
  decide

theorem fresh_coh (c : Chip) : Coh Cache.fresh c := by
  intro a ha h
  have : ∀ a, a < N → Cache.fresh.isCached a = false := by decide
  rw [this a ha] at h; cases h

theorem coh_stable {k : Cache} {c c' : Chip} (w : k.WF) (h : Coh k c) (s : Stable c c') : Coh k c' := by
  intro a ha hc
  rw [h a ha hc, s.cells a (not_vol_of_cached w ha hc)]

/-- one byte remembered: the entry of a never-cache register is left alone -/
def put (k : Cache) (a : Nat) (v : UInt8) : Cache :=
  if k.isIgnore a then k else { vals := k.vals.wr a v, sync := k.sync.wr a (UInt8.ofNat Gen.SHADOW_CACHED) }

theorem store_cons (k : Cache) (a : Nat) (v : UInt8) (vs : List UInt8) :
    k.store a (v :: vs) = (k.put a v).store (a + 1) vs := by
  simp only [store, put]

theorem put_wf {k : Cache} (w : k.WF) (a : Nat) (v : UInt8) : (k.put a v).WF := by
  unfold put
  split
  · exact w
  · rename_i hi
    refine ⟨by simp [w.hs], by simp [w.hv], ?_⟩
    intro b hb hvb
    have := w.vol b hb hvb
    have hne : a ≠ b := by intro e; subst e; exact hi this
    simpa [isIgnore, rd_wr_ne _ _ _ _ hne] using this

theorem put_isCached {k : Cache} (a b : Nat) (v : UInt8) (hne : a ≠ b) : (k.put a v).isCached b = k.isCached b := by
  unfold put
  split
  · rfl
  · simp [isCached, rd_wr_ne _ _ _ _ hne]

theorem put_vals {k : Cache} (a b : Nat) (v : UInt8) (hne : a ≠ b) : (k.put a v).vals.rd b = k.vals.rd b := by
  unfold put
  split
  · rfl
  · simp [rd_wr_ne _ _ _ _ hne]

theorem put_self {k : Cache} (w : k.WF) (a : Nat) (v : UInt8) (ha : a < N) (h : (k.put a v).isCached a = true) :
    (k.put a v).vals.rd a = v := by
  unfold put at h ⊢
  split
  · rename_i hi
    rw [if_pos hi] at h
    rw [not_cached_of_ignore hi] at h; cases h
  · simp [rd_wr_same _ _ _ (show a < k.vals.length by rw [w.hv]; exact ha)]

/-- coherence after a plain store of `v` at `a ≠ 1` on the chip and `put` in the cache -/
theorem coh_put_upd {k : Cache} {c c' : Chip} (w : k.WF) (h : Coh k c) (a : Nat) (v : UInt8) (ha : a < N)
    (h1 : a ≠ 1) (u : Upd c c' a v) : Coh (k.put a v) c' := by
  intro b hb hc
  by_cases hab : a = b
  · subst hab
    rw [put_self w a v ha hc, u.self]
  · rw [put_vals a b v hab, u.others b (Ne.symm hab) (Or.inl h1)]
    rw [put_isCached a b v hab] at hc
    exact h b hb hc

end Cache
end Sx

namespace Sx
open Mem Chip Cache

/-- the invariant of the whole world: shapes, coherence, and only admissible events scheduled -/
structure Inv (w : World) : Prop where
  chip : w.chip.WF
  cache : w.cache.WF
  coh : Coh w.cache w.chip
  sched : ∀ e ∈ w.sched, e.2.Admissible = true

theorem writeN_zero_stable {c : Chip} (h : c.WF) (d : List UInt8) : Stable c (c.writeN 0 d) := by
  induction d generalizing c with
  | nil => exact Stable.refl h
  | cons v vs ih =>
    simp only [writeN, ↓reduceIte]
    have h1 : Stable c (c.write 0 v) := write_zero_stable h 0 v (by decide)
    exact Stable.trans h1 (ih h1.wf)

theorem readN_stable {c : Chip} (h : c.WF) (a n : Nat) : Stable c (c.readN a n).2 := by
  induction n generalizing c a with
  | zero => exact Stable.refl h
  | succ n ih =>
    simp only [readN]
    exact Stable.trans (read_stable h a) (ih (read_stable h a).wf _)

end Sx

namespace Sx
open Mem Chip Cache

theorem N_eq : Cache.N = 0x71 := rfl

/-- a multi-byte register write at `reg ≥ 2`: chip and cache stay coherent byte by byte -/
theorem coh_store_writeN {k : Cache} {c : Chip} (wk : k.WF) (wc : c.WF) (h : Coh k c) (reg : Nat) (d : List UInt8)
    (h2 : 2 ≤ reg) (hlen : reg + d.length ≤ Cache.N) :
    (k.store reg d).WF ∧ (c.writeN reg d).WF ∧ Coh (k.store reg d) (c.writeN reg d) := by
  induction d generalizing k c reg with
  | nil => exact ⟨wk, wc, h⟩
  | cons v vs ih =>
    have hreg : reg < Cache.N := by simp at hlen; omega
    have hmod : reg % 128 = reg := Nat.mod_eq_of_lt (by rw [N_eq] at hreg; omega)
    have hne0 : reg ≠ 0 := by omega
    rw [store_cons]
    simp only [writeN, if_neg hne0]
    have hl' : reg + 1 + vs.length ≤ Cache.N := by simp at hlen; omega
    rcases write_effect wc reg v with ⟨hv, _, s⟩ | u
    · rw [hmod] at hv
      have hi := wk.vol reg hreg hv
      have hput : k.put reg v = k := by simp [Cache.put, hi]
      rw [hput]
      exact ih wk s.wf (coh_stable wk h s) (reg + 1) (by omega) hl'
    · rw [hmod] at u
      exact ih (put_wf wk reg v) u.wf (coh_put_upd wk h reg v hreg (by omega) u) (reg + 1) (by omega) hl'

theorem dropPage_sync (k : Cache) :
    k.dropPage.sync = (List.range (Gen.REGIRQFLAGS2 + 1 - Gen.REGFIFOADDRPTR)).foldl Cache.dropStep k.sync := by
  simp only [Cache.dropPage]

theorem dropStep_length (s : Mem) (i : Nat) : (Cache.dropStep s i).length = s.length := by
  unfold Cache.dropStep; dsimp only; split <;> simp

theorem dropStep_rd (s : Mem) (i a : Nat) :
    (Cache.dropStep s i).rd a = s.rd a ∨ ((Cache.dropStep s i).rd a = 0 ∧ s.rd a = 1 ∧ a = Gen.REGFIFOADDRPTR + i) := by
  unfold Cache.dropStep
  dsimp only
  split
  · rename_i hc
    by_cases hai : Gen.REGFIFOADDRPTR + i = a
    · subst hai
      by_cases hl : Gen.REGFIFOADDRPTR + i < s.length
      · right
        refine ⟨?_, by simpa using hc, rfl⟩
        rw [rd_wr_same _ _ _ hl]; rfl
      · left
        rw [rd_wr]; simp [hl]
    · left; exact rd_wr_ne _ _ _ _ hai
  · left; rfl

theorem foldl_dropStep_length (l : List Nat) (s : Mem) : (l.foldl Cache.dropStep s).length = s.length := by
  induction l generalizing s with
  | nil => rfl
  | cons x xs ih => rw [List.foldl, ih, dropStep_length]

/-- the fold never creates an entry and never touches entries other than CACHED ones -/
theorem foldl_dropStep_rd (l : List Nat) (s : Mem) (a : Nat) :
    (l.foldl Cache.dropStep s).rd a = s.rd a ∨ ((l.foldl Cache.dropStep s).rd a = 0 ∧ s.rd a = 1) := by
  induction l generalizing s with
  | nil => left; rfl
  | cons x xs ih =>
    rw [List.foldl]
    rcases ih (Cache.dropStep s x) with h | ⟨h0, h1⟩
    · rcases dropStep_rd s x a with h' | ⟨h0', h1', _⟩
      · left; rw [h, h']
      · right; exact ⟨by rw [h, h0'], h1'⟩
    · rcases dropStep_rd s x a with h' | ⟨h0', _, _⟩
      · right; exact ⟨h0, by rw [← h']; exact h1⟩
      · rw [h0'] at h1; cases h1

/-- after the fold over `l`, no address `REGFIFOADDRPTR + i` with `i ∈ l` is CACHED -/
theorem foldl_dropStep_clears (l : List Nat) (s : Mem) (i : Nat) (hi : i ∈ l)
    (hl : Gen.REGFIFOADDRPTR + i < s.length) : (l.foldl Cache.dropStep s).rd (Gen.REGFIFOADDRPTR + i) ≠ 1 := by
  induction l generalizing s with
  | nil => cases hi
  | cons x xs ih =>
    rw [List.foldl]
    rcases List.mem_cons.mp hi with h | h
    · subst h
      -- after this step the entry is not CACHED, and later steps never create one
      have hstep : (Cache.dropStep s i).rd (Gen.REGFIFOADDRPTR + i) ≠ 1 := by
        unfold Cache.dropStep
        dsimp only
        split
        · rw [rd_wr_same _ _ _ hl]; decide
        · rename_i hc; simpa using hc
      rcases foldl_dropStep_rd xs (Cache.dropStep s i) (Gen.REGFIFOADDRPTR + i) with h | ⟨h0, _⟩
      · rw [h]; exact hstep
      · rw [h0]; decide
    · exact ih (Cache.dropStep s x) h (by rw [dropStep_length]; exact hl)

theorem dropPage_vals (k : Cache) : k.dropPage.vals = k.vals := by
  simp only [Cache.dropPage]

theorem dropPage_wf {k : Cache} (w : k.WF) : k.dropPage.WF := by
  refine ⟨?_, by rw [dropPage_vals]; exact w.hv, ?_⟩
  · rw [dropPage_sync, foldl_dropStep_length]; exact w.hs
  · intro a ha hv
    have := w.vol a ha hv
    simp only [isIgnore, beq_iff_eq] at this ⊢
    rw [dropPage_sync]
    rcases foldl_dropStep_rd (List.range (Gen.REGIRQFLAGS2 + 1 - Gen.REGFIFOADDRPTR)) k.sync a with h | ⟨_, h1⟩
    · rw [h]; exact this
    · rw [h1] at this; cases this

theorem dropPage_cached {k : Cache} (w : k.WF) {a : Nat} (h : k.dropPage.isCached a = true) :
    k.isCached a = true ∧ inPage a = false := by
  simp only [isCached, beq_iff_eq] at h ⊢
  rw [dropPage_sync] at h
  constructor
  · rcases foldl_dropStep_rd (List.range (Gen.REGIRQFLAGS2 + 1 - Gen.REGFIFOADDRPTR)) k.sync a with h' | ⟨h0, _⟩
    · rw [← h']; exact h
    · rw [h0] at h; cases h
  · cases hp : inPage a with
    | false => rfl
    | true =>
      exfalso
      simp only [inPage, Bool.and_eq_true, decide_eq_true_eq] at hp
      have hmem : a - Gen.REGFIFOADDRPTR ∈ List.range (Gen.REGIRQFLAGS2 + 1 - Gen.REGFIFOADDRPTR) := by
        simp only [List.mem_range]; show a - 0x0d < 0x3f + 1 - 0x0d; omega
      have hadd : Gen.REGFIFOADDRPTR + (a - Gen.REGFIFOADDRPTR) = a := by show 0x0d + (a - 0x0d) = a; omega
      have := foldl_dropStep_clears _ k.sync (a - Gen.REGFIFOADDRPTR) hmem (by rw [hadd, w.hs, N_eq]; omega)
      rw [hadd] at this
      exact this h

end Sx
