import Sx.Lemmas.FloatSigned
import Sx.Model.Driver
/-
  Float → integer conversions of the driver that are defined for every input (C08): the facts, proved
  with the rounding lemmas; `Props/C08.lean` states them as property theorems.
-/
open Sx Sx.Model

namespace Sx

/-- binary32 rounding of a number in [2^-100, 2^100]: finite, positive, at most twice the number -/
theorem round32_le2 (q : Rat) (h1 : (2 : Rat) ^ (-(100 : Int)) ≤ q) (h2 : q ≤ (2 : Rat) ^ (100 : Int)) :
    ∃ r : Rat, F.round b32 q = .fin r ∧ 0 < r ∧ r ≤ 2 * q := by
  obtain ⟨e, herr⟩ := round32w q h1 h2
  have hq : 0 < q := lt_of_lt_of_le (two_zpow_pos _) h1
  have habs := abs_le.mp herr
  refine ⟨_, e, ?_, ?_⟩
  · nlinarith [habs.1]
  · nlinarith [habs.2]

/-- `(float) n` for a natural number below 2^64: finite, and 0 or in [n/2.., 2n] -/
theorem ofNat32_bound (n : Nat) (hn : n < 2 ^ 64) :
    ∃ r : Rat, F.ofNat b32 n = .fin r ∧ 0 ≤ r ∧ r ≤ 2 * (n : Rat) ∧ (0 < n → (1 : Rat) / 2 ≤ r) := by
  unfold F.ofNat
  rcases Nat.eq_zero_or_pos n with h0 | hpos
  · subst h0
    refine ⟨0, by simpa using round_zero, le_refl _, by simp, fun h => absurd h (by decide)⟩
  · have h1 : (1 : Rat) ≤ (n : Rat) := by exact_mod_cast hpos
    have h2 : (n : Rat) ≤ (2 : Rat) ^ (100 : Int) := by
      have : (n : Rat) < (2 : Rat) ^ (64 : Nat) := by exact_mod_cast hn
      have : (2 : Rat) ^ (64 : Nat) ≤ (2 : Rat) ^ (100 : Int) := by norm_num
      linarith
    obtain ⟨e, herr⟩ := round32 (n : Rat) h1 h2
    have habs := abs_le.mp herr
    have hu : (2 : Rat) ^ (-(24 : Int)) = 1 / 16777216 := by norm_num
    rw [hu] at habs
    refine ⟨_, e, by nlinarith [habs.1], by nlinarith [habs.2], fun _ => by nlinarith [habs.1]⟩

theorem truncQ_nonneg (q : Rat) (h : 0 ≤ q) : 0 ≤ F.truncQ q ∧ ((F.truncQ q : Int) : Rat) ≤ q := by
  unfold F.truncQ
  rw [if_neg (not_lt.mpr h)]
  exact ⟨Int.floor_nonneg.mpr h, Int.floor_le q⟩

theorem toUInt_some (bits : Nat) (q : Rat) (h0 : 0 ≤ q) (hb : q < ((2 ^ bits : Nat) : Rat)) :
    ∃ v, F.toUInt bits (.fin q) = some v := by
  unfold F.toUInt
  obtain ⟨t0, t1⟩ := truncQ_nonneg q h0
  have : F.truncQ q < (2 : Int) ^ bits := by
    have : ((F.truncQ q : Int) : Rat) < ((2 ^ bits : Nat) : Rat) := lt_of_le_of_lt t1 hb
    have h2 : ((F.truncQ q : Int) : Rat) < (((2 : Int) ^ bits : Int) : Rat) := by push_cast at this ⊢; exact this
    exact_mod_cast h2
  simp only [t0, this, and_self, if_true]
  exact ⟨_, rfl⟩

/-- **C08, `sx127x_set_frequency`.** For every `uint64_t` argument the conversion
    `(uint64_t)((frequency << 19) / 32e6f)` is defined. -/
theorem cast_set_frequency (f : UInt64) : ∃ d, frfOf f = some d := by
  unfold frfOf
  simp only
  rw [osc_value]
  have hn : (f <<< 19).toNat < 2 ^ 64 := (f <<< 19).toNat_lt
  obtain ⟨r, hr, r0, r2, rpos⟩ := ofNat32_bound (f <<< 19).toNat hn
  rw [hr]
  have hnq : ((f <<< 19).toNat : Rat) < 18446744073709551616 := by exact_mod_cast hn
  have hr65 : r < 36893488147419103232 := by linarith
  have hdiv : F.div b32 (.fin r) (.fin 32000000) = F.round b32 (r / 32000000) := by
    unfold F.div; simp
  rw [hdiv]
  rcases eq_or_lt_of_le r0 with hz | hp
  · rw [← hz]; simp only [zero_div]; rw [round_zero]
    obtain ⟨v, hv⟩ := toUInt_some 64 0 (le_refl _) (by norm_num)
    rw [hv]; exact ⟨_, rfl⟩
  · have hn0 : 0 < (f <<< 19).toNat := by
      rcases Nat.eq_zero_or_pos (f <<< 19).toNat with h | h
      · rw [h] at r2; simp at r2; linarith
      · exact h
    have hr12 := rpos hn0
    have e100 : (2 : Rat) ^ (100 : Int) = 1267650600228229401496703205376 := by norm_num
    have em100 : (2 : Rat) ^ (-(100 : Int)) = 1 / 1267650600228229401496703205376 := by
      rw [zpow_neg, e100]; norm_num
    have q1 : (2 : Rat) ^ (-(100 : Int)) ≤ r / 32000000 := by
      rw [em100, div_le_div_iff₀ (by norm_num) (by norm_num)]; linarith
    have q2 : r / 32000000 ≤ (2 : Rat) ^ (100 : Int) := by
      rw [e100, div_le_iff₀ (by norm_num)]; linarith
    obtain ⟨r', hr', rp, rle⟩ := round32_le2 _ q1 q2
    rw [hr']
    have hb : r' < ((2 ^ 64 : Nat) : Rat) := by
      have h3 : r / 32000000 < 1152921504606847 := by
        rw [div_lt_iff₀ (by norm_num)]; linarith
      have : ((2 ^ 64 : Nat) : Rat) = 18446744073709551616 := by norm_num
      rw [this]; linarith
    obtain ⟨v, hv⟩ := toUInt_some 64 r' (le_of_lt rp) hb
    rw [hv]; exact ⟨_, rfl⟩

/-- **C08, `sx127x_get_frequency`.** For every value the three (or, for the theorem, four) register
    bytes can hold, the conversion `(uint64_t)(raw * 32e6f)` is defined. -/
theorem cast_get_frequency (raw : UInt32) : ∃ v, freqOfRaw raw = some v := by
  unfold freqOfRaw
  simp only
  rw [osc_value]
  have hn32 : raw.toNat < 2 ^ 32 := raw.toNat_lt
  have hn : raw.toNat < 2 ^ 64 := lt_trans hn32 (by norm_num)
  obtain ⟨r, hr, r0, r2, rpos⟩ := ofNat32_bound raw.toNat hn
  rw [hr]
  have hnq : (raw.toNat : Rat) < 4294967296 := by exact_mod_cast hn32
  have hr33 : r < 8589934592 := by linarith
  have hmul : F.mul b32 (.fin r) (.fin 32000000) = F.round b32 (r * 32000000) := rfl
  rw [hmul]
  rcases eq_or_lt_of_le r0 with hz | hp
  · rw [← hz]; simp only [zero_mul]; rw [round_zero]
    obtain ⟨v, hv⟩ := toUInt_some 64 0 (le_refl _) (by norm_num)
    rw [hv]; exact ⟨_, rfl⟩
  · have hn0 : 0 < raw.toNat := by
      rcases Nat.eq_zero_or_pos raw.toNat with h | h
      · rw [h] at r2; simp at r2; linarith
      · exact h
    have hr12 := rpos hn0
    have e100 : (2 : Rat) ^ (100 : Int) = 1267650600228229401496703205376 := by norm_num
    have em100 : (2 : Rat) ^ (-(100 : Int)) = 1 / 1267650600228229401496703205376 := by
      rw [zpow_neg, e100]; norm_num
    have q1 : (2 : Rat) ^ (-(100 : Int)) ≤ r * 32000000 := by
      rw [em100]; linarith
    have q2 : r * 32000000 ≤ (2 : Rat) ^ (100 : Int) := by
      rw [e100]; linarith
    obtain ⟨r', hr', rp, rle⟩ := round32_le2 _ q1 q2
    rw [hr']
    have hb : r' < ((2 ^ 64 : Nat) : Rat) := by
      have : ((2 ^ 64 : Nat) : Rat) = 18446744073709551616 := by norm_num
      rw [this]; linarith
    obtain ⟨v, hv⟩ := toUInt_some 64 r' (le_of_lt rp) hb
    rw [hv]; exact ⟨_, rfl⟩

/-- **C08, `sx127x_lora_set_ppm_offset`.** Whatever float the correction formula produced (NaN and
    infinities included), once it has passed the range check `-129 < ppm < 128` the conversion to
    `int8_t` is defined. -/
theorem cast_ppm (ppm : F) (h1 : F.gt ppm (.fin (-129)) = true) (h2 : F.lt ppm (.fin 128) = true) :
    ∃ v, F.toSInt 8 ppm = some v := by
  cases ppm with
  | nan => simp [F.gt, F.lt] at h1
  | inf s => cases s <;> simp [F.gt, F.lt] at h1 h2
  | fin q =>
    simp only [F.gt, F.lt, decide_eq_true_eq] at h1 h2
    unfold F.toSInt
    have hlo : -(128 : Int) ≤ F.truncQ q := by
      unfold F.truncQ
      split
      · rename_i hneg
        rw [rfloor_eq]
        have h3 : ⌊-q⌋ < 129 := Int.floor_lt.mpr (by norm_num; linarith)
        omega
      · rename_i hnn
        rw [rfloor_eq]
        have : 0 ≤ ⌊q⌋ := Int.floor_nonneg.mpr (not_lt.mp hnn)
        omega
    have hhi : F.truncQ q < 128 := by
      unfold F.truncQ
      split
      · rename_i hneg
        rw [rfloor_eq]
        have : 0 ≤ ⌊-q⌋ := Int.floor_nonneg.mpr (by linarith)
        omega
      · rw [rfloor_eq]; exact Int.floor_lt.mpr (by norm_num; linarith)
    have e : (-((2 : Int) ^ (8 - 1)) ≤ F.truncQ q ∧ F.truncQ q < (2 : Int) ^ (8 - 1)) := by
      constructor <;> norm_num <;> omega
    simp only [e, and_self, if_true]
    exact ⟨_, rfl⟩

end Sx
