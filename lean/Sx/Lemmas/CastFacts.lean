import Sx.Lemmas.FloatSigned
import Sx.Model.Driver
import Sx.Model.Beacon
/-
  Float → integer conversions of the driver that are defined for every input (C08): the facts, proved
  with the rounding lemmas; `Props/C08.lean` states them as property theorems.
-/
open Sx Sx.Model

namespace Sx

/-- binary32 rounding of a number in [2^-100, 2^100]: finite, positive, at most twice the number -/
theorem round32_le2 (q : Rat) (h1 : (2 : Rat) ^ (-(100 : Int)) ≤ q) (h2 : q ≤ (2 : Rat) ^ (100 : Int)) :
    ∃ r : Rat, F.round b32 q = .fin r ∧ 0 < r ∧ r ≤ 2 * q := by
  obtain ⟨e, herr⟩ := round32w q h1 h2
  have hq : 0 < q := lt_of_lt_of_le (two_zpow_pos _) h1
  have habs := abs_le.mp herr
  refine ⟨_, e, ?_, ?_⟩
  · nlinarith [habs.1]
  · nlinarith [habs.2]

/-- `(float) n` for a natural number below 2^64: finite, and 0 or in [n/2.., 2n] -/
theorem ofNat32_bound (n : Nat) (hn : n < 2 ^ 64) :
    ∃ r : Rat, F.ofNat b32 n = .fin r ∧ 0 ≤ r ∧ r ≤ 2 * (n : Rat) ∧ (0 < n → (1 : Rat) / 2 ≤ r) := by
  unfold F.ofNat
  rcases Nat.eq_zero_or_pos n with h0 | hpos
  · subst h0
    refine ⟨0, by simpa using round_zero, le_refl _, by simp, fun h => absurd h (by decide)⟩
  · have h1 : (1 : Rat) ≤ (n : Rat) := by exact_mod_cast hpos
    have h2 : (n : Rat) ≤ (2 : Rat) ^ (100 : Int) := by
      have : (n : Rat) < (2 : Rat) ^ (64 : Nat) := by exact_mod_cast hn
      have : (2 : Rat) ^ (64 : Nat) ≤ (2 : Rat) ^ (100 : Int) := by norm_num
      linarith
    obtain ⟨e, herr⟩ := round32 (n : Rat) h1 h2
    have habs := abs_le.mp herr
    have hu : (2 : Rat) ^ (-(24 : Int)) = 1 / 16777216 := by norm_num
    rw [hu] at habs
    refine ⟨_, e, by nlinarith [habs.1], by nlinarith [habs.2], fun _ => by nlinarith [habs.1]⟩

theorem truncQ_nonneg (q : Rat) (h : 0 ≤ q) : 0 ≤ F.truncQ q ∧ ((F.truncQ q : Int) : Rat) ≤ q := by
  unfold F.truncQ
  rw [if_neg (not_lt.mpr h)]
  exact ⟨Int.floor_nonneg.mpr h, Int.floor_le q⟩

theorem toUInt_some (bits : Nat) (q : Rat) (h0 : 0 ≤ q) (hb : q < ((2 ^ bits : Nat) : Rat)) :
    ∃ v, F.toUInt bits (.fin q) = some v := by
  unfold F.toUInt
  obtain ⟨t0, t1⟩ := truncQ_nonneg q h0
  have : F.truncQ q < (2 : Int) ^ bits := by
    have : ((F.truncQ q : Int) : Rat) < ((2 ^ bits : Nat) : Rat) := lt_of_le_of_lt t1 hb
    have h2 : ((F.truncQ q : Int) : Rat) < (((2 : Int) ^ bits : Int) : Rat) := by push_cast at this ⊢; exact this
    exact_mod_cast h2
  simp only [t0, this, and_self, if_true]
  exact ⟨_, rfl⟩

/-- **C08, `sx127x_set_frequency`.** For every `uint64_t` argument the conversion
    `(uint64_t)((frequency << 19) / 32e6f)` is defined. -/
theorem cast_set_frequency (f : UInt64) : ∃ d, frfOf f = some d := by
  unfold frfOf
  simp only
  rw [osc_value]
  have hn : (f <<< 19).toNat < 2 ^ 64 := (f <<< 19).toNat_lt
  obtain ⟨r, hr, r0, r2, rpos⟩ := ofNat32_bound (f <<< 19).toNat hn
  rw [hr]
  have hnq : ((f <<< 19).toNat : Rat) < 18446744073709551616 := by exact_mod_cast hn
  have hr65 : r < 36893488147419103232 := by linarith
  have hdiv : F.div b32 (.fin r) (.fin 32000000) = F.round b32 (r / 32000000) := by
    unfold F.div; simp
  rw [hdiv]
  rcases eq_or_lt_of_le r0 with hz | hp
  · rw [← hz]; simp only [zero_div]; rw [round_zero]
    obtain ⟨v, hv⟩ := toUInt_some 64 0 (le_refl _) (by norm_num)
    rw [hv]; exact ⟨_, rfl⟩
  · have hn0 : 0 < (f <<< 19).toNat := by
      rcases Nat.eq_zero_or_pos (f <<< 19).toNat with h | h
      · rw [h] at r2; simp at r2; linarith
      · exact h
    have hr12 := rpos hn0
    have e100 : (2 : Rat) ^ (100 : Int) = 1267650600228229401496703205376 := by norm_num
    have em100 : (2 : Rat) ^ (-(100 : Int)) = 1 / 1267650600228229401496703205376 := by
      rw [zpow_neg, e100]; norm_num
    have q1 : (2 : Rat) ^ (-(100 : Int)) ≤ r / 32000000 := by
      rw [em100, div_le_div_iff₀ (by norm_num) (by norm_num)]; linarith
    have q2 : r / 32000000 ≤ (2 : Rat) ^ (100 : Int) := by
      rw [e100, div_le_iff₀ (by norm_num)]; linarith
    obtain ⟨r', hr', rp, rle⟩ := round32_le2 _ q1 q2
    rw [hr']
    have hb : r' < ((2 ^ 64 : Nat) : Rat) := by
      have h3 : r / 32000000 < 1152921504606847 := by
        rw [div_lt_iff₀ (by norm_num)]; linarith
      have : ((2 ^ 64 : Nat) : Rat) = 18446744073709551616 := by norm_num
      rw [this]; linarith
    obtain ⟨v, hv⟩ := toUInt_some 64 r' (le_of_lt rp) hb
    rw [hv]; exact ⟨_, rfl⟩

/-- **C08, `sx127x_get_frequency`.** For every value the three (or, for the theorem, four) register
    bytes can hold, the conversion `(uint64_t)(raw * 32e6f)` is defined. -/
theorem cast_get_frequency (raw : UInt32) : ∃ v, freqOfRaw raw = some v := by
  unfold freqOfRaw
  simp only
  rw [osc_value]
  have hn32 : raw.toNat < 2 ^ 32 := raw.toNat_lt
  have hn : raw.toNat < 2 ^ 64 := lt_trans hn32 (by norm_num)
  obtain ⟨r, hr, r0, r2, rpos⟩ := ofNat32_bound raw.toNat hn
  rw [hr]
  have hnq : (raw.toNat : Rat) < 4294967296 := by exact_mod_cast hn32
  have hr33 : r < 8589934592 := by linarith
  have hmul : F.mul b32 (.fin r) (.fin 32000000) = F.round b32 (r * 32000000) := rfl
  rw [hmul]
  rcases eq_or_lt_of_le r0 with hz | hp
  · rw [← hz]; simp only [zero_mul]; rw [round_zero]
    obtain ⟨v, hv⟩ := toUInt_some 64 0 (le_refl _) (by norm_num)
    rw [hv]; exact ⟨_, rfl⟩
  · have hn0 : 0 < raw.toNat := by
      rcases Nat.eq_zero_or_pos raw.toNat with h | h
      · rw [h] at r2; simp at r2; linarith
      · exact h
    have hr12 := rpos hn0
    have e100 : (2 : Rat) ^ (100 : Int) = 1267650600228229401496703205376 := by norm_num
    have em100 : (2 : Rat) ^ (-(100 : Int)) = 1 / 1267650600228229401496703205376 := by
      rw [zpow_neg, e100]; norm_num
    have q1 : (2 : Rat) ^ (-(100 : Int)) ≤ r * 32000000 := by
      rw [em100]; linarith
    have q2 : r * 32000000 ≤ (2 : Rat) ^ (100 : Int) := by
      rw [e100]; linarith
    obtain ⟨r', hr', rp, rle⟩ := round32_le2 _ q1 q2
    rw [hr']
    have hb : r' < ((2 ^ 64 : Nat) : Rat) := by
      have : ((2 ^ 64 : Nat) : Rat) = 18446744073709551616 := by norm_num
      rw [this]; linarith
    obtain ⟨v, hv⟩ := toUInt_some 64 r' (le_of_lt rp) hb
    rw [hv]; exact ⟨_, rfl⟩

/-- **C08, `sx127x_lora_set_ppm_offset`.** Whatever float the correction formula produced (NaN and
    infinities included), once it has passed the range check `-129 < ppm < 128` the conversion to
    `int8_t` is defined. -/
theorem cast_ppm (ppm : F) (h1 : F.gt ppm (.fin (-129)) = true) (h2 : F.lt ppm (.fin 128) = true) :
    ∃ v, F.toSInt 8 ppm = some v := by
  cases ppm with
  | nan => simp [F.gt, F.lt] at h1
  | inf s => cases s <;> simp [F.gt, F.lt] at h1 h2
  | fin q =>
    simp only [F.gt, F.lt, decide_eq_true_eq] at h1 h2
    unfold F.toSInt
    have hlo : -(128 : Int) ≤ F.truncQ q := by
      unfold F.truncQ
      split
      · rename_i hneg
        rw [rfloor_eq]
        have h3 : ⌊-q⌋ < 129 := Int.floor_lt.mpr (by norm_num; linarith)
        omega
      · rename_i hnn
        rw [rfloor_eq]
        have : 0 ≤ ⌊q⌋ := Int.floor_nonneg.mpr (not_lt.mp hnn)
        omega
    have hhi : F.truncQ q < 128 := by
      unfold F.truncQ
      split
      · rename_i hneg
        rw [rfloor_eq]
        have : 0 ≤ ⌊-q⌋ := Int.floor_nonneg.mpr (by linarith)
        omega
      · rw [rfloor_eq]; exact Int.floor_lt.mpr (by norm_num; linarith)
    have e : (-((2 : Int) ^ (8 - 1)) ≤ F.truncQ q ∧ F.truncQ q < (2 : Int) ^ (8 - 1)) := by
      constructor <;> norm_num <;> omega
    simp only [e, and_self, if_true]
    exact ⟨_, rfl⟩

end Sx

/-! ### The beacon timers for intervals above the documented maximum -/

namespace Sx

theorem e100 : (2 : Rat) ^ (100 : Int) = 1267650600228229401496703205376 := by norm_num
theorem em100 : (2 : Rat) ^ (-(100 : Int)) = 1 / 1267650600228229401496703205376 := by
  rw [zpow_neg, e100]; norm_num

/-- a finite positive float with explicit bounds -/
def Pos (x : F) (lo hi : Rat) : Prop := ∃ q, x = .fin q ∧ lo ≤ q ∧ q ≤ hi

theorem pos_round (q lo hi : Rat) (hlo : (1 : Rat) / 100000000000000000000 ≤ lo) (h1 : lo ≤ q) (h2 : q ≤ hi) (hhi : hi ≤ 100000000000000000000) :
    Pos (F.round b32 q) (lo / 2) (2 * hi) := by
  have q1 : (2 : Rat) ^ (-(100 : Int)) ≤ q := by rw [em100]; linarith
  have q2 : q ≤ (2 : Rat) ^ (100 : Int) := by rw [e100]; linarith
  obtain ⟨e, herr⟩ := round32w q q1 q2
  have hq : 0 < q := by linarith
  have habs := abs_le.mp herr
  exact ⟨_, e, by nlinarith [habs.1], by nlinarith [habs.2]⟩

theorem pos_div {x y : F} {a b c d : Rat} (hx : Pos x a b) (hy : Pos y c d) (ha : (1 : Rat) / 1000000 ≤ a) (hb : b ≤ 1000000000000000)
    (hc : (1 : Rat) / 100 ≤ c) (hd : d ≤ 1000000) : Pos (F.div b32 x y) (a / d / 2) (2 * (b / c)) := by
  obtain ⟨p, rfl, p1, p2⟩ := hx
  obtain ⟨q, rfl, q1, q2⟩ := hy
  have hq0 : q ≠ 0 := by intro h; rw [h] at q1; linarith
  have hdiv : F.div b32 (.fin p) (.fin q) = F.round b32 (p / q) := by unfold F.div; simp [hq0]
  rw [hdiv]
  have hqpos : 0 < q := by linarith
  have hdpos : 0 < d := by linarith
  have hcpos : 0 < c := by linarith
  have l1 : a / d ≤ p / q := by
    rw [div_le_div_iff₀ hdpos hqpos]; nlinarith
  have l2 : p / q ≤ b / c := by
    rw [div_le_div_iff₀ hqpos hcpos]; nlinarith
  refine pos_round (p / q) (a / d) (b / c) ?_ l1 l2 ?_
  · rw [le_div_iff₀ hdpos]; nlinarith
  · rw [div_le_iff₀ hcpos]; nlinarith

theorem timerCoefficient_some (x : F) (lo hi : Rat) (h : Pos x lo hi) (h0 : 0 ≤ lo) :
    ∃ c, timerCoefficient x = some c ∧ c ≤ 255 := by
  obtain ⟨q, rfl, q1, q2⟩ := h
  have c255 : F.ofNat b32 255 = .fin 255 := by
    have := ofNat32_exact 255 (by norm_num) (by norm_num); simpa using this
  unfold timerCoefficient
  rw [c255]
  by_cases hg : F.gt (.fin q) (.fin 255) = true
  · rw [if_pos hg]; exact ⟨255, rfl, le_refl _⟩
  · rw [if_neg hg]
    have hq255 : q ≤ 255 := by
      simp only [F.gt, F.lt, decide_eq_true_eq, not_lt] at hg; exact hg
    have hq0 : 0 ≤ q := le_trans h0 q1
    obtain ⟨t0, t1⟩ := truncQ_nonneg q hq0
    have t255 : F.truncQ q ≤ 255 := by
      have : ((F.truncQ q : Int) : Rat) ≤ 255 := le_trans t1 hq255
      exact_mod_cast this
    unfold F.toUInt
    have hlt : F.truncQ q < (2 : Int) ^ 8 := by norm_num; omega
    simp only [t0, hlt, and_self, if_true]
    exact ⟨_, rfl, by omega⟩
end Sx

namespace Sx
open Sx.Model

/-- finite and non-negative, with an upper bound -/
def NN (x : F) (hi : Rat) : Prop := ∃ q, x = .fin q ∧ 0 ≤ q ∧ q ≤ hi

theorem pos_f32 (q : Rat) (h1 : (1 : Rat) / 100 ≤ q) (h2 : q ≤ 1000) : Pos (f32 q) (q / 2) (2 * q) :=
  pos_round q q q (by linarith) (le_refl _) (le_refl _) (by linarith)

theorem ofNat_small (c : Nat) (hc : c ≤ 255) : ∃ q : Rat, F.ofNat b32 c = .fin q ∧ q = (c : Rat) := by
  rcases Nat.eq_zero_or_pos c with h | h
  · subst h; exact ⟨0, by simpa [F.ofNat] using round_zero, by simp⟩
  · exact ⟨_, ofNat32_exact c h (by omega), rfl⟩

/-- resolution times an 8-bit coefficient -/
theorem nn_mul_coef {x : F} {a b : Rat} (hx : Pos x a b) (ha : (1 : Rat) / 100 ≤ a) (hb : b ≤ 1000) (c : Nat) (hc : c ≤ 255) :
    NN (F.mul b32 x (F.ofNat b32 c)) (2 * (b * 255)) := by
  obtain ⟨p, rfl, p1, p2⟩ := hx
  obtain ⟨q, hq, hqc⟩ := ofNat_small c hc
  rw [hq]
  have hmul : F.mul b32 (.fin p) (.fin q) = F.round b32 (p * q) := rfl
  rw [hmul]
  have hc255 : (c : Rat) ≤ 255 := by exact_mod_cast hc
  rcases Nat.eq_zero_or_pos c with h | h
  · subst h; rw [hqc]; simp only [Nat.cast_zero, mul_zero]; rw [round_zero]
    exact ⟨0, rfl, le_refl _, by nlinarith⟩
  · have hc1 : (1 : Rat) ≤ (c : Rat) := by exact_mod_cast h
    have hp0 : 0 < p := by linarith
    obtain ⟨z, hz, z1, z2⟩ := pos_round (p * q) a (b * 255) (by linarith) (by rw [hqc]; nlinarith) (by rw [hqc]; nlinarith) (by nlinarith)
    exact ⟨z, hz, by linarith, z2⟩

/-- what is left of the interval after timer 1 -/
theorem pos_sub {r z R Z : Rat} (hr : R ≤ r) (hr2 : r ≤ 10000000000) (hz0 : 0 ≤ z) (hz : z ≤ Z) (hgap : Z + 1 / 2 ≤ R) :
    Pos (F.sub b32 (.fin r) (.fin z)) ((R - Z) / 2) (2 * 10000000000) := by
  have hsub : F.sub b32 (.fin r) (.fin z) = F.round b32 (r + -z) := rfl
  rw [hsub]
  exact pos_round (r + -z) (R - Z) 10000000000 (by linarith) (by linarith) (by linarith) (by norm_num)

/-- the interval as a float: at least 133620.99 for every interval above the documented maximum -/
theorem iv_bound (n : Nat) (h1 : 133620 < n) (h2 : n < 2 ^ 32) :
    ∃ r : Rat, F.ofNat b32 n = .fin r ∧ (13362099 : Rat) / 100 ≤ r ∧ r ≤ 10000000000 := by
  unfold F.ofNat
  have hn1 : (133621 : Rat) ≤ (n : Rat) := by exact_mod_cast h1
  have hn2 : (n : Rat) < 4294967296 := by exact_mod_cast h2
  have h100 : (n : Rat) ≤ (2 : Rat) ^ (100 : Int) := by rw [e100]; linarith
  obtain ⟨e, herr⟩ := round32 (n : Rat) (by linarith) h100
  have hu : (2 : Rat) ^ (-(24 : Int)) = 1 / 16777216 := by norm_num
  rw [hu] at herr
  have habs := abs_le.mp herr
  exact ⟨_, e, by nlinarith [habs.1], by nlinarith [habs.2]⟩

end Sx

namespace Sx
open Sx.Model

theorem tc_some' (x : F) (lo hi : Rat) (h : Pos x lo hi) (h0 : 0 ≤ lo) : ∃ c, timerCoefficient x = some c ∧ c ≤ 255 :=
  timerCoefficient_some x lo hi h h0

set_option hygiene false in
/-- one branch of the timer selection: `$px` the resolution of timer 1, `$cpos` that its coefficient is a
    positive float, `$py` the resolution of timer 2 (when the code chooses it by what is left: either of the two) -/
macro "beacon_branch" px:term "," cpos:term "," py:term : tactic => `(tactic| (
  obtain ⟨c1, hc1, hc1le⟩ := tc_some' _ _ _ $cpos (by norm_num)
  rw [hc1]
  dsimp only
  obtain ⟨z, hz, z0, z2⟩ := nn_mul_coef $px (by norm_num) (by norm_num) c1 hc1le
  rw [hz]
  have hrem := pos_sub (r := r) (z := z) (R := 13362099 / 100) r1 r2 z0 z2 (by norm_num)
  first
  | (obtain ⟨c2, hc2, _⟩ := tc_some' _ _ _ (pos_div hrem $py (by norm_num) (by norm_num) (by norm_num) (by norm_num)) (by norm_num)
     rw [hc2]
     exact ⟨_, rfl⟩)
  | (split_ifs <;> first
      | (obtain ⟨c2, hc2, _⟩ := tc_some' _ _ _ (pos_div hrem P1 (by norm_num) (by norm_num) (by norm_num) (by norm_num)) (by norm_num)
         rw [hc2]
         exact ⟨_, rfl⟩)
      | (obtain ⟨c2, hc2, _⟩ := tc_some' _ _ _ (pos_div hrem P2 (by norm_num) (by norm_num) (by norm_num) (by norm_num)) (by norm_num)
         rw [hc2]
         exact ⟨_, rfl⟩))))

set_option maxHeartbeats 1000000 in
theorem beacon_some_large (n : Nat) (h1 : 133620 < n) (h2 : n < 2 ^ 32) : ∃ t, beaconTimers n = some t := by
  obtain ⟨r, hr, r1, r2⟩ := iv_bound n h1 h2
  have P1 := pos_f32 (64/1000) (by norm_num) (by norm_num)
  have P2 := pos_f32 (41/10) (by norm_num) (by norm_num)
  have P3 : Pos (f32 262) 262 262 := by
    have h := ofNat32_exact 262 (by norm_num) (by norm_num)
    unfold F.ofNat at h
    refine ⟨262, ?_, le_refl _, le_refl _⟩
    unfold f32
    simpa using h
  have PT : Pos (F.ofNat b32 2) 2 2 := ⟨2, by have := ofNat32_exact 2 (by norm_num) (by norm_num); simpa using this, le_refl _, le_refl _⟩
  have PIV : Pos (F.fin r) (13362099 / 100) 10000000000 := ⟨r, rfl, r1, r2⟩
  unfold beaconTimers
  rw [hr]
  dsimp only
  split_ifs
  all_goals dsimp only
  all_goals first
    | (beacon_branch P1, (pos_div (pos_div PIV P1 (by norm_num) (by norm_num) (by norm_num) (by norm_num)) PT (by norm_num) (by norm_num) (by norm_num) (by norm_num)), P1)
    | (beacon_branch P2, (pos_div PIV P2 (by norm_num) (by norm_num) (by norm_num) (by norm_num)), P1)
    | (beacon_branch P2, (pos_div (pos_div PIV P2 (by norm_num) (by norm_num) (by norm_num) (by norm_num)) PT (by norm_num) (by norm_num) (by norm_num) (by norm_num)), P2)
    | (beacon_branch P3, (pos_div (pos_div PIV P3 (by norm_num) (by norm_num) (by norm_num) (by norm_num)) PT (by norm_num) (by norm_num) (by norm_num) (by norm_num)), P3)
    | (beacon_branch P3, (pos_div PIV P3 (by norm_num) (by norm_num) (by norm_num) (by norm_num)), P1)
    | (beacon_branch P3, (pos_div PIV P3 (by norm_num) (by norm_num) (by norm_num) (by norm_num)), P2)
end Sx
