import Sx.Lemmas.FloatOps
import Mathlib.Data.Nat.Bitwise
/-
  Signed single-precision products and 16-bit two's complement (used by the frequency-error
  decode of C12): rounding is odd (`rnd (-q) = -rnd q`), the frequency step and ±1 are exact,
  truncation toward zero of a value of magnitude in [1, 2^31).
-/
namespace Sx
open Sx.Model

theorem rnd_neg (p : Nat) (emin : Int) (q : Rat) : rnd p emin (-q) = -rnd p emin q := by
  unfold rnd
  by_cases h0 : q = 0
  · simp [h0]
  · have h0' : -q ≠ 0 := by simpa using h0
    rw [if_neg h0', if_neg h0]
    rcases lt_or_gt_of_ne h0 with hn | hp
    · have h1 : ¬(-q < 0) := by linarith
      simp only [hn, h1, ↓reduceIte, neg_neg]
    · have h1 : (-q < 0) := by linarith
      have h2 : ¬(q < 0) := by linarith
      simp only [h1, h2, ↓reduceIte, neg_neg]

/-- rounding a negative number whose magnitude rounds to a finite value -/
theorem round_neg_fin (f : Fmt) (q : Rat) (hb : rnd f.p f.emin q < (2 : Rat) ^ (f.emax + 1)) (hpos : 0 ≤ rnd f.p f.emin q) :
    F.round f (-q) = .fin (-rnd f.p f.emin q) := by
  unfold F.round
  simp only
  rw [rnd_neg]
  by_cases hz : rnd f.p f.emin q = 0
  · rw [hz]
    have : ¬((2 : Rat) ^ (f.emax + 1) ≤ 0) := not_le.mpr (two_zpow_pos _)
    simp [this]
  · have hp : 0 < rnd f.p f.emin q := lt_of_le_of_ne hpos (Ne.symm hz)
    have hneg : -rnd f.p f.emin q < 0 := by linarith
    rw [if_pos hneg, neg_neg, if_neg (not_le.mpr hb)]
theorem and_8000 (n : Nat) (h : n < 65536) : (n &&& 32768 ≠ 0) ↔ 32768 ≤ n := by
  have : n &&& 32768 = (n.testBit 15).toNat * 2 ^ 15 := Nat.and_two_pow n 15
  rw [this, Nat.testBit_eq_decide_div_mod_eq]
  by_cases hb : n / 2 ^ 15 % 2 = 1
  · simp; omega
  · simp; omega

theorem neg16 (raw : UInt32) (h : raw.toNat < 65536) (hn : 32768 ≤ raw.toNat) :
    (((~~~ raw) + 1) &&& 0xFFFF).toNat = 65536 - raw.toNat := by
  rw [UInt32.toNat_and, UInt32.toNat_add, UInt32.toNat_not]
  have : (0xFFFF : UInt32).toNat = 2 ^ 16 - 1 := by decide
  rw [this, Nat.and_two_pow_sub_one_eq_mod]
  have : (1 : UInt32).toNat = 1 := rfl
  rw [this]
  have hs : UInt32.size = 4294967296 := rfl
  omega

theorem bit15 (raw : UInt32) (h : raw.toNat < 65536) : (raw &&& 0x8000 ≠ 0) ↔ 32768 ≤ raw.toNat := by
  rw [← and_8000 raw.toNat h]
  have : (raw &&& 0x8000).toNat = raw.toNat &&& 32768 := by rw [UInt32.toNat_and]; rfl
  rw [← this]
  constructor
  · intro hne h0; exact hne (UInt32.toNat_inj.mp (by simpa using h0))
  · intro hne h0; exact hne (by rw [h0]; rfl)

/-- the step as a dyadic -/
theorem fstep_dyadic : (32000000 / 524288 : Rat) = ((15625 : Nat) : Rat) * (2 : Rat) ^ (-(8 : Int)) := by norm_num

theorem round_fstep : F.round b32 (32000000 / 524288) = .fin (32000000 / 524288) := by
  have hex : rnd 24 (-126) (32000000 / 524288) = 32000000 / 524288 := by
    rw [fstep_dyadic]
    exact rnd_dyadic_exact 24 (by norm_num) (-126) 15625 (by norm_num) (by norm_num) (-8)
      (normal_of_one_le (-126) (by norm_num) _ (by norm_num))
  have := round_fin b32 (32000000 / 524288) (by show rnd 24 (-126) _ < (2 : Rat) ^ ((127 : Int) + 1); rw [hex]; norm_num) (by show 0 ≤ rnd 24 (-126) _; rw [hex]; norm_num)
  rw [this]; show F.fin (rnd 24 (-126) _) = _; rw [hex]

theorem round_neg_fstep : F.round b32 (-(32000000 / 524288)) = .fin (-(32000000 / 524288)) := by
  have hex : rnd 24 (-126) (32000000 / 524288) = 32000000 / 524288 := by
    rw [fstep_dyadic]
    exact rnd_dyadic_exact 24 (by norm_num) (-126) 15625 (by norm_num) (by norm_num) (-8)
      (normal_of_one_le (-126) (by norm_num) _ (by norm_num))
  have := round_neg_fin b32 (32000000 / 524288) (by show rnd 24 (-126) _ < (2 : Rat) ^ ((127 : Int) + 1); rw [hex]; norm_num) (by show 0 ≤ rnd 24 (-126) _; rw [hex]; norm_num)
  rw [this]; show F.fin (-rnd 24 (-126) _) = _; rw [hex]

theorem ofInt_one : F.ofInt b32 1 = .fin 1 := by
  have := ofNat32_exact 1 (by norm_num) (by norm_num)
  unfold F.ofNat at this
  unfold F.ofInt
  simpa using this

theorem ofInt_neg_one : F.ofInt b32 (-1) = .fin (-1) := by
  have h1 : rnd 24 (-126) 1 = 1 := by
    have := rnd_nat_exact 24 (by norm_num) (-126) (by norm_num) 1 (by norm_num) (by norm_num)
    simpa using this
  unfold F.ofInt
  have := round_neg_fin b32 1 (by show rnd 24 (-126) 1 < (2 : Rat) ^ ((127 : Int) + 1); rw [h1]; norm_num) (by show 0 ≤ rnd 24 (-126) 1; rw [h1]; norm_num)
  have e : ((-1 : Int) : Rat) = -1 := by norm_num
  rw [e, this]; show F.fin (-rnd 24 (-126) 1) = _; rw [h1]


/-- the product `Fstep * m` in single precision and its truncation -/
theorem fstep_mul (m : Nat) (hm0 : 0 < m) (hm : m ≤ 32768) :
    ∃ P : Rat, F.round b32 (32000000 / 524288 * (m : Rat)) = .fin P ∧
      F.round b32 (-(32000000 / 524288) * (m : Rat)) = .fin (-P) ∧
      1 ≤ P ∧ P < 2147483648 ∧ |P - 32000000 / 524288 * (m : Rat)| ≤ 1 / 8 := by
  set x : Rat := 32000000 / 524288 * (m : Rat) with hx
  have hm1 : (1 : Rat) ≤ (m : Rat) := by exact_mod_cast hm0
  have hm2 : (m : Rat) ≤ 32768 := by exact_mod_cast hm
  have hx1 : (1 : Rat) ≤ x := by rw [hx]; nlinarith
  have hx2 : x ≤ 2000000 := by rw [hx]; nlinarith
  have hx3 : x ≤ (2 : Rat) ^ (100 : Int) := by
    have : (2000000 : Rat) ≤ (2 : Rat) ^ (100 : Int) := by norm_num
    linarith
  obtain ⟨r1, e1⟩ := round32 x hx1 hx3
  have hu : (2 : Rat) ^ (-(24 : Int)) = 1 / 16777216 := by norm_num
  rw [hu] at e1
  have a1 := abs_le.mp e1
  set P := rnd 24 (-126) x with hP
  have hP1 : 1 ≤ P := by
    have : x - x * (1 / 16777216) ≤ P := by linarith [a1.1]
    have hx61 : (61 : Rat) ≤ x := by rw [hx]; nlinarith
    nlinarith
  have hP2 : P < 2147483648 := by nlinarith [a1.2]
  refine ⟨P, r1, ?_, hP1, hP2, ?_⟩
  · have hneg : -(32000000 / 524288 : Rat) * (m : Rat) = -x := by rw [hx]; ring
    rw [hneg]
    have hbig : (2147483648 : Rat) ≤ (2 : Rat) ^ ((127 : Int) + 1) := by norm_num
    have hb2 : P < (2 : Rat) ^ ((127 : Int) + 1) := by linarith
    exact round_neg_fin b32 x hb2 (by show 0 ≤ P; linarith)
  · rw [abs_le]
    constructor <;> nlinarith [a1.1, a1.2]

theorem toSInt_pos (P : Rat) (h1 : 1 ≤ P) (h2 : P < 2147483648) : F.toSInt 32 (.fin P) = some P.floor := by
  unfold F.toSInt F.truncQ
  simp only
  rw [if_neg (not_lt.mpr (by linarith))]
  have hf0 : 0 ≤ P.floor := by rw [rfloor_eq]; exact Int.floor_nonneg.mpr (by linarith)
  have hf1 : P.floor < 2147483648 := by
    have : (P.floor : Rat) ≤ P := Rat.floor_le P
    have : (P.floor : Rat) < 2147483648 := by linarith
    exact_mod_cast this
  rw [if_pos ⟨by norm_num; omega, by norm_num; omega⟩]

theorem toSInt_neg (P : Rat) (h1 : 1 ≤ P) (h2 : P < 2147483648) : F.toSInt 32 (.fin (-P)) = some (-P.floor) := by
  unfold F.toSInt F.truncQ
  simp only
  rw [if_pos (by linarith : -P < 0), neg_neg]
  have hf0 : 0 ≤ P.floor := by rw [rfloor_eq]; exact Int.floor_nonneg.mpr (by linarith)
  have hf1 : P.floor < 2147483648 := by
    have : (P.floor : Rat) ≤ P := Rat.floor_le P
    have : (P.floor : Rat) < 2147483648 := by linarith
    exact_mod_cast this
  rw [if_pos ⟨by norm_num; omega, by norm_num; omega⟩]

end Sx
