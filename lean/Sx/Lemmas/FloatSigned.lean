import Sx.Lemmas.FloatOps
import Mathlib.Data.Nat.Bitwise
/-
  Signed single-precision products and 16-bit two's complement (used by the frequency-error
  decode of C12): rounding is odd (`rnd (-q) = -rnd q`), the frequency step and ±1 are exact,
  truncation toward zero of a value of magnitude in [1, 2^31).
-/
namespace Sx
open Sx.Model

theorem rnd_neg (p : Nat) (emin : Int) (q : Rat) : rnd p emin (-q) = -rnd p emin q := by
  unfold rnd
  by_cases h0 : q = 0
  · simp [h0]
  · have h0' : -q ≠ 0 := by simpa using h0
    rw [if_neg h0', if_neg h0]
    rcases lt_or_gt_of_ne h0 with hn | hp
    · have h1 : ¬(-q < 0) := by linarith
      simp only [hn, h1, ↓reduceIte, neg_neg]
    · have h1 : (-q < 0) := by linarith
      have h2 : ¬(q < 0) := by linarith
      simp only [h1, h2, ↓reduceIte, neg_neg]

/-- rounding a negative number whose magnitude rounds to a finite value -/
theorem round_neg_fin (f : Fmt) (q : Rat) (hb : rnd f.p f.emin q < (2 : Rat) ^ (f.emax + 1)) (hpos : 0 ≤ rnd f.p f.emin q) :
    F.round f (-q) = .fin (-rnd f.p f.emin q) := by
  unfold F.round
  simp only
  rw [rnd_neg]
  by_cases hz : rnd f.p f.emin q = 0
  · rw [hz]
    have : ¬((2 : Rat) ^ (f.emax + 1) ≤ 0) := not_le.mpr (two_zpow_pos _)
    simp [this]
  · have hp : 0 < rnd f.p f.emin q := lt_of_le_of_ne hpos (Ne.symm hz)
    have hneg : -rnd f.p f.emin q < 0 := by linarith
    rw [if_pos hneg, neg_neg, if_neg (not_le.mpr hb)]
theorem and_8000 (n : Nat) (h : n < 65536) : (n &&& 32768 ≠ 0) ↔ 32768 ≤ n := by
  have : n &&& 32768 = (n.testBit 15).toNat * 2 ^ 15 := Nat.and_two_pow n 15
  rw [this, Nat.testBit_eq_decide_div_mod_eq]
  by_cases hb : n / 2 ^ 15 % 2 = 1
  · simp; omega
  · simp; omega

theorem neg16 (raw : UInt32) (h : raw.toNat < 65536) (hn : 32768 ≤ raw.toNat) :
    (((~~~ raw) + 1) &&& 0xFFFF).toNat = 65536 - raw.toNat := by
  rw [UInt32.toNat_and, UInt32.toNat_add, UInt32.toNat_not]
  have : (0xFFFF : UInt32).toNat = 2 ^ 16 - 1 := by decide
  rw [this, Nat.and_two_pow_sub_one_eq_mod]
  have : (1 : UInt32).toNat = 1 := rfl
  rw [this]
  have hs : UInt32.size = 4294967296 := rfl
  omega

theorem bit15 (raw : UInt32) (h : raw.toNat < 65536) : (raw &&& 0x8000 ≠ 0) ↔ 32768 ≤ raw.toNat := by
  rw [← and_8000 raw.toNat h]
  have : (raw &&& 0x8000).toNat = raw.toNat &&& 32768 := by rw [UInt32.toNat_and]; rfl
  rw [← this]
  constructor
  · intro hne h0; exact hne (UInt32.toNat_inj.mp (by simpa using h0))
  · intro hne h0; exact hne (by rw [h0]; rfl)

/-- the step as a dyadic -/
theorem fstep_dyadic : (32000000 / 524288 : Rat) = ((15625 : Nat) : Rat) * (2 : Rat) ^ (-(8 : Int)) := by norm_num

theorem round_fstep : F.round b32 (32000000 / 524288) = .fin (32000000 / 524288) := by
  have hex : rnd 24 (-126) (32000000 / 524288) = 32000000 / 524288 := by
    rw [fstep_dyadic]
    exact rnd_dyadic_exact 24 (by norm_num) (-126) 15625 (by norm_num) (by norm_num) (-8)
      (normal_of_one_le (-126) (by norm_num) _ (by norm_num))
  have := round_fin b32 (32000000 / 524288) (by show rnd 24 (-126) _ < (2 : Rat) ^ ((127 : Int) + 1); rw [hex]; norm_num) (by show 0 ≤ rnd 24 (-126) _; rw [hex]; norm_num)
  rw [this]; show F.fin (rnd 24 (-126) _) = _; rw [hex]

theorem round_neg_fstep : F.round b32 (-(32000000 / 524288)) = .fin (-(32000000 / 524288)) := by
  have hex : rnd 24 (-126) (32000000 / 524288) = 32000000 / 524288 := by
    rw [fstep_dyadic]
    exact rnd_dyadic_exact 24 (by norm_num) (-126) 15625 (by norm_num) (by norm_num) (-8)
      (normal_of_one_le (-126) (by norm_num) _ (by norm_num))
  have := round_neg_fin b32 (32000000 / 524288) (by show rnd 24 (-126) _ < (2 : Rat) ^ ((127 : Int) + 1); rw [hex]; norm_num) (by show 0 ≤ rnd 24 (-126) _; rw [hex]; norm_num)
  rw [this]; show F.fin (-rnd 24 (-126) _) = _; rw [hex]

theorem ofInt_one : F.ofInt b32 1 = .fin 1 := by
  have := ofNat32_exact 1 (by norm_num) (by norm_num)
  unfold F.ofNat at this
  unfold F.ofInt
  simpa using this

theorem ofInt_neg_one : F.ofInt b32 (-1) = .fin (-1) := by
  have h1 : rnd 24 (-126) 1 = 1 := by
    have := rnd_nat_exact 24 (by norm_num) (-126) (by norm_num) 1 (by norm_num) (by norm_num)
    simpa using this
  unfold F.ofInt
  have := round_neg_fin b32 1 (by show rnd 24 (-126) 1 < (2 : Rat) ^ ((127 : Int) + 1); rw [h1]; norm_num) (by show 0 ≤ rnd 24 (-126) 1; rw [h1]; norm_num)
  have e : ((-1 : Int) : Rat) = -1 := by norm_num
  rw [e, this]; show F.fin (-rnd 24 (-126) 1) = _; rw [h1]


/-- the product `Fstep * m` in single precision and its truncation -/
theorem fstep_mul (m : Nat) (hm0 : 0 < m) (hm : m ≤ 32768) :
    ∃ P : Rat, F.round b32 (32000000 / 524288 * (m : Rat)) = .fin P ∧
      F.round b32 (-(32000000 / 524288) * (m : Rat)) = .fin (-P) ∧
      1 ≤ P ∧ P < 2147483648 ∧ |P - 32000000 / 524288 * (m : Rat)| ≤ 1 / 8 := by
  set x : Rat := 32000000 / 524288 * (m : Rat) with hx
  have hm1 : (1 : Rat) ≤ (m : Rat) := by exact_mod_cast hm0
  have hm2 : (m : Rat) ≤ 32768 := by exact_mod_cast hm
  have hx1 : (1 : Rat) ≤ x := by rw [hx]; nlinarith
  have hx2 : x ≤ 2000000 := by rw [hx]; nlinarith
  have hx3 : x ≤ (2 : Rat) ^ (100 : Int) := by
    have : (2000000 : Rat) ≤ (2 : Rat) ^ (100 : Int) := by norm_num
    linarith
  obtain ⟨r1, e1⟩ := round32 x hx1 hx3
  have hu : (2 : Rat) ^ (-(24 : Int)) = 1 / 16777216 := by norm_num
  rw [hu] at e1
  have a1 := abs_le.mp e1
  set P := rnd 24 (-126) x with hP
  have hP1 : 1 ≤ P := by
    have : x - x * (1 / 16777216) ≤ P := by linarith [a1.1]
    have hx61 : (61 : Rat) ≤ x := by rw [hx]; nlinarith
    nlinarith
  have hP2 : P < 2147483648 := by nlinarith [a1.2]
  refine ⟨P, r1, ?_, hP1, hP2, ?_⟩
  · have hneg : -(32000000 / 524288 : Rat) * (m : Rat) = -x := by rw [hx]; ring
    rw [hneg]
    have hbig : (2147483648 : Rat) ≤ (2 : Rat) ^ ((127 : Int) + 1) := by norm_num
    have hb2 : P < (2 : Rat) ^ ((127 : Int) + 1) := by linarith
    exact round_neg_fin b32 x hb2 (by show 0 ≤ P; linarith)
  · rw [abs_le]
    constructor <;> nlinarith [a1.1, a1.2]

theorem toSInt_pos (P : Rat) (h1 : 1 ≤ P) (h2 : P < 2147483648) : F.toSInt 32 (.fin P) = some P.floor := by
  unfold F.toSInt F.truncQ
  simp only
  rw [if_neg (not_lt.mpr (by linarith))]
  have hf0 : 0 ≤ P.floor := by rw [rfloor_eq]; exact Int.floor_nonneg.mpr (by linarith)
  have hf1 : P.floor < 2147483648 := by
    have : (P.floor : Rat) ≤ P := Rat.floor_le P
    have : (P.floor : Rat) < 2147483648 := by linarith
    exact_mod_cast this
  rw [if_pos ⟨by norm_num; omega, by norm_num; omega⟩]

theorem toSInt_neg (P : Rat) (h1 : 1 ≤ P) (h2 : P < 2147483648) : F.toSInt 32 (.fin (-P)) = some (-P.floor) := by
  unfold F.toSInt F.truncQ
  simp only
  rw [if_pos (by linarith : -P < 0), neg_neg]
  have hf0 : 0 ≤ P.floor := by rw [rfloor_eq]; exact Int.floor_nonneg.mpr (by linarith)
  have hf1 : P.floor < 2147483648 := by
    have : (P.floor : Rat) ≤ P := Rat.floor_le P
    have : (P.floor : Rat) < 2147483648 := by linarith
    exact_mod_cast this
  rw [if_pos ⟨by norm_num; omega, by norm_num; omega⟩]

theorem normal_of_small (q : Rat) (h : (2 : Rat) ^ (-(100 : Int)) ≤ q) : (-126 : Int) ≤ ilog2 q := by
  have hq : 0 < q := lt_of_lt_of_le (two_zpow_pos _) h
  have := (ilog2_spec q hq).2
  by_contra hc
  have hlt : ilog2 q + 1 ≤ -100 := by omega
  have h2 : (2 : Rat) ^ (ilog2 q + 1) ≤ (2 : Rat) ^ (-(100 : Int)) := zpow_le_zpow_right₀ (by norm_num) hlt
  linarith

/-- binary32 rounding of a positive number in [2^-100, 2^100]: finite, within relative 2^-24 -/
theorem round32w (q : Rat) (h1 : (2 : Rat) ^ (-(100 : Int)) ≤ q) (h2 : q ≤ (2 : Rat) ^ (100 : Int)) :
    F.round b32 q = .fin (rnd 24 (-126) q) ∧ |rnd 24 (-126) q - q| ≤ q * (1 / 16777216) := by
  have hq : 0 < q := lt_of_lt_of_le (two_zpow_pos _) h1
  have hn := normal_of_small q h1
  have herr := rnd_rel 24 (-126) q hq hn
  have hu : (2 : Rat) ^ (-((24 : Nat) : Int)) = 1 / 16777216 := by norm_num
  rw [hu] at herr
  have habs := abs_le.mp herr
  refine ⟨?_, herr⟩
  have hpos : 0 ≤ rnd 24 (-126) q := by nlinarith [habs.1]
  have hlt : rnd 24 (-126) q < (2 : Rat) ^ ((127 : Int) + 1) := by
    have : (2 : Rat) ^ (100 : Int) * 2 ≤ (2 : Rat) ^ ((127 : Int) + 1) := by norm_num
    have : rnd 24 (-126) q ≤ q + q * (1 / 16777216) := by linarith [habs.2]
    have : q + q * (1 / 16777216) ≤ q * 2 := by nlinarith
    linarith
  exact round_fin b32 q hlt hpos

theorem factor_value : F.ofBits32 Gen.SX127x_FREQ_ERROR_FACTOR_bits = .fin (8796093 / 16777216) := by
  unfold F.ofBits32
  have : (Gen.SX127x_FREQ_ERROR_FACTOR_bits : UInt32).toNat = 1057372093 := by decide
  simp only [this]
  norm_num



theorem toSInt_pos' (P : Rat) (h1 : 0 < P) (h2 : P < 2147483648) : F.toSInt 32 (.fin P) = some P.floor := by
  unfold F.toSInt F.truncQ
  simp only
  rw [if_neg (not_lt.mpr (le_of_lt h1))]
  have hf0 : 0 ≤ P.floor := by rw [rfloor_eq]; exact Int.floor_nonneg.mpr (le_of_lt h1)
  have hf1 : P.floor < 2147483648 := by
    have : (P.floor : Rat) ≤ P := Rat.floor_le P
    have : (P.floor : Rat) < 2147483648 := by linarith
    exact_mod_cast this
  rw [if_pos ⟨by norm_num; omega, by norm_num; omega⟩]

theorem toSInt_neg' (P : Rat) (h1 : 0 < P) (h2 : P < 2147483648) : F.toSInt 32 (.fin (-P)) = some (-P.floor) := by
  unfold F.toSInt F.truncQ
  simp only
  rw [if_pos (by linarith : -P < 0), neg_neg]
  have hf0 : 0 ≤ P.floor := by rw [rfloor_eq]; exact Int.floor_nonneg.mpr (le_of_lt h1)
  have hf1 : P.floor < 2147483648 := by
    have : (P.floor : Rat) ≤ P := Rat.floor_le P
    have : (P.floor : Rat) < 2147483648 := by linarith
    exact_mod_cast this
  rw [if_pos ⟨by norm_num; omega, by norm_num; omega⟩]

/-- the float expression `mag * FACTOR * bw / 500000.0f` and one more product with ±1, for one
    bandwidth given as a numeral: four roundings, each within relative 2^-24 -/
theorem lora_chain_num (m : Nat) (hm0 : 0 < m) (hm : m ≤ 524288) (bw : Rat) (hb1 : 7800 ≤ bw) (hb2 : bw ≤ 500000) :
    ∃ P1 P2 P3 P4 : Rat,
      F.round b32 ((m : Rat) * (8796093 / 16777216)) = .fin P1 ∧
      F.round b32 (P1 * bw) = .fin P2 ∧
      F.round b32 (P2 / 500000) = .fin P3 ∧
      F.round b32 (1 * P3) = .fin P4 ∧ F.round b32 (-1 * P3) = .fin (-P4) ∧
      0 < P4 ∧ P4 < 2147483648 ∧
      |P1 - (m : Rat) * (8796093 / 16777216)| ≤ (m : Rat) * (8796093 / 16777216) * (1 / 16777216) ∧
      |P2 - P1 * bw| ≤ P1 * bw * (1 / 16777216) ∧
      |P3 - P2 / 500000| ≤ P2 / 500000 * (1 / 16777216) ∧
      |P4 - P3| ≤ P3 * (1 / 16777216) ∧ 0 < P1 ∧ 0 < P2 ∧ 0 < P3 := by
  have hm1 : (1 : Rat) ≤ (m : Rat) := by exact_mod_cast hm0
  have hm2 : (m : Rat) ≤ 524288 := by exact_mod_cast hm
  have lo : (2 : Rat) ^ (-(100 : Int)) ≤ 1 / 1000000000 := by norm_num
  have hi : (1000000000000000 : Rat) ≤ (2 : Rat) ^ (100 : Int) := by norm_num
  set x1 : Rat := (m : Rat) * (8796093 / 16777216) with hx1
  have x1lo : (1 / 2 : Rat) ≤ x1 := by rw [hx1]; nlinarith
  have x1hi : x1 ≤ 274878 := by rw [hx1]; nlinarith
  obtain ⟨r1, e1⟩ := round32w x1 (le_trans lo (by linarith)) (le_trans (by linarith) hi)
  set P1 := rnd 24 (-126) x1
  have a1 := abs_le.mp e1
  have P1lo : (1 / 4 : Rat) ≤ P1 := by nlinarith [a1.1]
  have P1hi : P1 ≤ 274879 := by nlinarith [a1.2]
  set x2 : Rat := P1 * bw with hx2
  have x2lo : (1000 : Rat) ≤ x2 := by rw [hx2]; nlinarith
  have x2hi : x2 ≤ 137439500000 := by rw [hx2]; nlinarith
  obtain ⟨r2, e2⟩ := round32w x2 (le_trans lo (by linarith)) (le_trans (by linarith) hi)
  set P2 := rnd 24 (-126) x2
  have a2 := abs_le.mp e2
  have P2lo : (999 : Rat) ≤ P2 := by nlinarith [a2.1]
  have P2hi : P2 ≤ 137439600000 := by nlinarith [a2.2]
  set x3 : Rat := P2 / 500000 with hx3
  have x3lo : (1 / 1000 : Rat) ≤ x3 := by rw [hx3]; rw [le_div_iff₀ (by norm_num)]; linarith
  have x3hi : x3 ≤ 274880 := by rw [hx3]; rw [div_le_iff₀ (by norm_num)]; linarith
  obtain ⟨r3, e3⟩ := round32w x3 (le_trans lo (by linarith)) (le_trans (by linarith) hi)
  set P3 := rnd 24 (-126) x3
  have a3 := abs_le.mp e3
  have P3lo : (1 / 2000 : Rat) ≤ P3 := by nlinarith [a3.1]
  have P3hi : P3 ≤ 274881 := by nlinarith [a3.2]
  obtain ⟨r4, e4⟩ := round32w P3 (le_trans lo (by linarith)) (le_trans (by linarith) hi)
  set P4 := rnd 24 (-126) P3
  have a4 := abs_le.mp e4
  have P4lo : (1 / 4000 : Rat) ≤ P4 := by nlinarith [a4.1]
  have P4hi : P4 ≤ 274882 := by nlinarith [a4.2]
  refine ⟨P1, P2, P3, P4, r1, r2, r3, by rw [one_mul]; exact r4, ?_, by linarith, by linarith, e1, e2, e3, e4, by linarith, by linarith, by linarith⟩
  rw [show (-1 : Rat) * P3 = -P3 by ring]
  exact round_neg_fin b32 P3 (by show P4 < (2 : Rat) ^ ((127 : Int) + 1); have : (274882 : Rat) < (2 : Rat) ^ ((127 : Int) + 1) := by norm_num
                                 linarith) (by show 0 ≤ P4; linarith)


/-- the ten LoRa bandwidths `sx127x_lora_get_bandwidth` can return -/
def LoraBw (bw : Nat) : Prop :=
  bw = 7800 ∨ bw = 10400 ∨ bw = 15600 ∨ bw = 20800 ∨ bw = 31250 ∨ bw = 41700 ∨ bw = 62500 ∨ bw = 125000 ∨ bw = 250000 ∨ bw = 500000

theorem lora_chain_err (m : Nat) (hm0 : 0 < m) (hm : m ≤ 524288) (bw : Nat) (hbw : LoraBw bw) :
    ∃ P1 P2 P3 P4 : Rat,
      F.round b32 ((m : Rat) * (8796093 / 16777216)) = .fin P1 ∧
      F.round b32 (P1 * (bw : Rat)) = .fin P2 ∧
      F.round b32 (P2 / 500000) = .fin P3 ∧
      F.round b32 (1 * P3) = .fin P4 ∧ F.round b32 (-1 * P3) = .fin (-P4) ∧
      0 < P4 ∧ P4 < 2147483648 ∧
      |P4 - (m : Rat) * (16777216 / 32000000) * (bw : Rat) / 500000| ≤ 1 / 8 := by
  have hb : (7800 : Rat) ≤ (bw : Rat) ∧ (bw : Rat) ≤ 500000 := by
    rcases hbw with h | h | h | h | h | h | h | h | h | h <;> subst h <;> norm_num
  obtain ⟨P1, P2, P3, P4, r1, r2, r3, r4, r5, p4a, p4b, e1, e2, e3, e4, p1, p2, p3⟩ :=
    lora_chain_num m hm0 hm (bw : Rat) hb.1 hb.2
  refine ⟨P1, P2, P3, P4, r1, r2, r3, r4, r5, p4a, p4b, ?_⟩
  have hm1 : (1 : Rat) ≤ (m : Rat) := by exact_mod_cast hm0
  have hm2 : (m : Rat) ≤ 524288 := by exact_mod_cast hm
  have a1 := abs_le.mp e1
  have a2 := abs_le.mp e2
  have a3 := abs_le.mp e3
  have a4 := abs_le.mp e4
  rw [abs_le]
  rcases hbw with h | h | h | h | h | h | h | h | h | h <;> subst h <;> push_cast at * <;>
    constructor <;> linarith [a1.1, a1.2, a2.1, a2.2, a3.1, a3.2, a4.1, a4.2]


theorem and_80000 (n : Nat) (h : n < 1048576) : (n &&& 524288 ≠ 0) ↔ 524288 ≤ n := by
  have : n &&& 524288 = (n.testBit 19).toNat * 2 ^ 19 := Nat.and_two_pow n 19
  rw [this, Nat.testBit_eq_decide_div_mod_eq]
  by_cases hb : n / 2 ^ 19 % 2 = 1
  · simp [hb]; omega
  · simp [hb]; omega

theorem bit19 (raw : UInt32) (h : raw.toNat < 1048576) : (raw &&& 0x80000 ≠ 0) ↔ 524288 ≤ raw.toNat := by
  rw [← and_80000 raw.toNat h]
  have : (raw &&& 0x80000).toNat = raw.toNat &&& 524288 := by rw [UInt32.toNat_and]; rfl
  rw [← this]
  constructor
  · intro hne h0; exact hne (UInt32.toNat_inj.mp (by simpa using h0))
  · intro hne h0; exact hne (by rw [h0]; rfl)

theorem neg20 (raw : UInt32) (h : raw.toNat < 1048576) (hn : 524288 ≤ raw.toNat) :
    (((~~~ raw) + 1) &&& 0xFFFFF).toNat = 1048576 - raw.toNat := by
  rw [UInt32.toNat_and, UInt32.toNat_add, UInt32.toNat_not]
  have : (0xFFFFF : UInt32).toNat = 2 ^ 20 - 1 := by decide
  rw [this, Nat.and_two_pow_sub_one_eq_mod]
  have : (1 : UInt32).toNat = 1 := rfl
  rw [this]
  have hs : UInt32.size = 4294967296 := rfl
  omega

/-- the 20-bit two's-complement reading of RegFei -/
def s20 (n : Nat) : Int := if 524288 ≤ n then (n : Int) - 1048576 else n

theorem f32_500000 : f32 500000 = .fin 500000 := by
  have := ofNat32_exact 500000 (by norm_num) (by norm_num)
  unfold F.ofNat at this
  unfold f32
  simpa using this

theorem round_zero : F.round b32 0 = .fin 0 := by
  unfold F.round rnd
  simp only [↓reduceIte, lt_self_iff_false]
  rw [if_neg (not_le.mpr (two_zpow_pos _))]

theorem quarter_pos (m : Nat) (hm0 : 0 < m) (hm1 : m < 2 ^ 24) :
    rnd 24 (-126) ((m : Rat) / 4) = (m : Rat) / 4 ∧ (m : Rat) / 4 < (2 : Rat) ^ ((127 : Int) + 1) ∧ (0 : Rat) ≤ (m : Rat) / 4 := by
  have hq : ((m : Rat) / 4) = (m : Rat) * (2 : Rat) ^ (-(2 : Int)) := by norm_num; ring
  have hmq : (1 : Rat) ≤ (m : Rat) := by exact_mod_cast hm0
  have hlo : (2 : Rat) ^ (-(100 : Int)) ≤ 1 / 4 := by norm_num
  have hsmall : (2 : Rat) ^ (-(100 : Int)) ≤ (m : Rat) * (2 : Rat) ^ (-(2 : Int)) := by rw [← hq]; linarith
  refine ⟨?_, ?_, by positivity⟩
  · rw [hq]
    exact rnd_dyadic_exact 24 (by norm_num) (-126) m hm0 hm1 (-2) (normal_of_small _ hsmall)
  · have h1 : (m : Rat) < 16777216 := by exact_mod_cast hm1
    have h2 : (16777216 : Rat) < (2 : Rat) ^ ((127 : Int) + 1) := by norm_num
    linarith

/-- a quarter-integer of magnitude below 2^22 is a binary32 value -/
theorem round_quarter (n : Int) (hn : n.natAbs < 16777216) : F.round b32 ((n : Rat) / 4) = .fin ((n : Rat) / 4) := by
  rcases lt_trichotomy n 0 with hneg | hz | hpos
  · obtain ⟨m, hm⟩ : ∃ m : Nat, n = -(m : Int) := ⟨n.natAbs, by omega⟩
    obtain ⟨hex, hb, hp⟩ := quarter_pos m (by omega) (by omega)
    have := round_neg_fin b32 ((m : Rat) / 4) (by show rnd 24 (-126) _ < _; rw [hex]; exact hb) (by show 0 ≤ rnd 24 (-126) _; rw [hex]; exact hp)
    have e : ((n : Rat) / 4) = -((m : Rat) / 4) := by rw [hm]; push_cast; ring
    rw [e, this]
    show F.fin (-rnd 24 (-126) _) = _
    rw [hex]
  · rw [hz]; norm_num; exact round_zero
  · obtain ⟨m, hm⟩ : ∃ m : Nat, n = (m : Int) := ⟨n.natAbs, by omega⟩
    obtain ⟨hex, hb, hp⟩ := quarter_pos m (by omega) (by omega)
    have := round_fin b32 ((m : Rat) / 4) (by show rnd 24 (-126) _ < _; rw [hex]; exact hb) (by show 0 ≤ rnd 24 (-126) _; rw [hex]; exact hp)
    have e : ((n : Rat) / 4) = ((m : Rat) / 4) := by rw [hm]; push_cast; rfl
    rw [e, this]
    show F.fin (rnd 24 (-126) _) = _
    rw [hex]


/-- the packet-strength sum of the driver: an integer plus a quarter-integer, added in single
    precision and truncated to `int16_t` — exact -/
theorem rssiRefine_exact (r : Int) (hr1 : -1000 ≤ r) (hr2 : r ≤ 1000) (k : Int) (hk1 : -128 ≤ k) (hk2 : k ≤ 127) :
    rssiRefine r (.fin ((k : Rat) / 4)) = some (F.truncQ ((r : Rat) + (k : Rat) / 4)) := by
  unfold rssiRefine
  have hr : F.ofInt b32 r = .fin (r : Rat) := by
    unfold F.ofInt
    have := round_quarter (4 * r) (by omega)
    have e : (((4 * r : Int) : Rat) / 4) = (r : Rat) := by push_cast; ring
    rw [e] at this
    exact this
  rw [hr]
  show F.toSInt 16 (F.round b32 ((r : Rat) + (k : Rat) / 4)) = _
  have e : (r : Rat) + (k : Rat) / 4 = ((4 * r + k : Int) : Rat) / 4 := by push_cast; ring
  rw [e, round_quarter (4 * r + k) (by omega)]
  unfold F.toSInt
  simp only
  have hq1 : (-1100 : Rat) ≤ ((4 * r + k : Int) : Rat) / 4 := by
    have : ((-4400 : Int) : Rat) ≤ ((4 * r + k : Int) : Rat) := by exact_mod_cast (by omega : (-4400 : Int) ≤ 4 * r + k)
    rw [le_div_iff₀ (by norm_num)]; push_cast at this ⊢; linarith
  have hq2 : ((4 * r + k : Int) : Rat) / 4 ≤ 1100 := by
    have : ((4 * r + k : Int) : Rat) ≤ ((4400 : Int) : Rat) := by exact_mod_cast (by omega : 4 * r + k ≤ (4400 : Int))
    rw [div_le_iff₀ (by norm_num)]; push_cast at this ⊢; linarith
  set q : Rat := ((4 * r + k : Int) : Rat) / 4 with hq
  have ht : -1101 ≤ F.truncQ q ∧ F.truncQ q ≤ 1101 := by
    unfold F.truncQ
    split
    · have h1 := Rat.floor_le (-q)
      have h2 := Rat.lt_floor_add_one (-q)
      constructor
      · have : ((-q).floor : Rat) ≤ 1100 := by linarith
        have : (-q).floor ≤ 1100 := by exact_mod_cast this
        omega
      · have : (-1101 : Rat) < ((-q).floor : Rat) := by push_cast at h2; linarith
        have : -1101 < (-q).floor := by exact_mod_cast this
        omega
    · have h1 := Rat.floor_le q
      have h2 := Rat.lt_floor_add_one q
      constructor
      · have : (-1101 : Rat) < (q.floor : Rat) := by push_cast at h2; linarith
        have : -1101 < q.floor := by exact_mod_cast this
        omega
      · have : (q.floor : Rat) ≤ 1100 := by linarith
        have : q.floor ≤ 1100 := by exact_mod_cast this
        omega
  have h16 : ((2 : Int) ^ (16 - 1)) = 32768 := by norm_num
  rw [if_pos ⟨by rw [h16]; omega, by rw [h16]; omega⟩]


theorem F.eq_fin {a : F} {y : Rat} (h : F.eq a (.fin y) = true) : a = .fin y := by
  cases a with
  | nan => simp [F.eq] at h
  | inf s => simp [F.eq] at h
  | fin x => simp [F.eq] at h; rw [h]

/-- a left fold that keeps the strictly smaller tolerance ends with a minimum of the list -/
theorem foldl_min {ι γ : Type} (L : List ι) (t : ι → Rat) (c : ι → γ) (a0 : Rat) (c0 : γ) :
    (L.foldl (fun acc i => if t i < acc.1 then (t i, c i) else acc) (a0, c0)).1 ≤ a0 ∧
    (∀ j ∈ L, (L.foldl (fun acc i => if t i < acc.1 then (t i, c i) else acc) (a0, c0)).1 ≤ t j) ∧
    (L.foldl (fun acc i => if t i < acc.1 then (t i, c i) else acc) (a0, c0) = (a0, c0) ∨
      ∃ i ∈ L, L.foldl (fun acc i => if t i < acc.1 then (t i, c i) else acc) (a0, c0) = (t i, c i)) := by
  induction L generalizing a0 c0 with
  | nil => exact ⟨le_refl _, fun j hj => absurd hj List.not_mem_nil, Or.inl rfl⟩
  | cons x xs ih =>
    simp only [List.foldl_cons]
    by_cases hlt : t x < a0
    · rw [if_pos hlt]
      obtain ⟨h1, h2, h3⟩ := ih (t x) (c x)
      refine ⟨le_trans h1 (le_of_lt hlt), ?_, ?_⟩
      · intro j hj
        rcases List.mem_cons.mp hj with e | e
        · rw [e]; exact h1
        · exact h2 j e
      · rcases h3 with e | ⟨i, hi, e⟩
        · exact Or.inr ⟨x, List.mem_cons_self, e⟩
        · exact Or.inr ⟨i, List.mem_cons_of_mem _ hi, e⟩
    · rw [if_neg hlt]
      obtain ⟨h1, h2, h3⟩ := ih a0 c0
      refine ⟨h1, ?_, ?_⟩
      · intro j hj
        rcases List.mem_cons.mp hj with e | e
        · rw [e]; exact le_trans h1 (not_lt.mp hlt)
        · exact h2 j e
      · rcases h3 with e | ⟨i, hi, e⟩
        · exact Or.inl e
        · exact Or.inr ⟨i, List.mem_cons_of_mem _ hi, e⟩

/-- binary32 rounding of any number of magnitude up to 2^100: finite, within relative 2^-24 plus
    half the smallest subnormal -/
theorem round_any (x : Rat) (hx : |x| ≤ (2 : Rat) ^ (100 : Int)) :
    F.round b32 x = .fin (rnd 24 (-126) x) ∧ |rnd 24 (-126) x - x| ≤ |x| * (1 / 16777216) + (2 : Rat) ^ (-(150 : Int)) := by
  have key : ∀ y : Rat, 0 < y → y ≤ (2 : Rat) ^ (100 : Int) →
      |rnd 24 (-126) y - y| ≤ y * (1 / 16777216) + (2 : Rat) ^ (-(150 : Int)) := by
    intro y hy _
    have h := rnd_err 24 (-126) y hy
    have hs := (ilog2_spec y hy).1
    have hb : (2 : Rat) ^ (ulpExp 24 (-126) y) / 2 ≤ y * (1 / 16777216) + (2 : Rat) ^ (-(150 : Int)) := by
      unfold ulpExp
      rcases le_total (ilog2 y - ((24 : Nat) - 1 : Int)) ((-126 : Int) - ((24 : Nat) - 1 : Int)) with hle | hle
      · rw [max_eq_right hle]
        have : (2 : Rat) ^ ((-126 : Int) - ((24 : Nat) - 1 : Int)) / 2 = (2 : Rat) ^ (-(150 : Int)) := by norm_num
        rw [this]
        have : 0 ≤ y * (1 / 16777216) := by positivity
        linarith
      · rw [max_eq_left hle]
        have e1 : (2 : Rat) ^ (ilog2 y - ((24 : Nat) - 1 : Int)) / 2 = (2 : Rat) ^ (ilog2 y) * (1 / 16777216) := by
          have : ilog2 y - ((24 : Nat) - 1 : Int) = ilog2 y + (-23 : Int) := by push_cast; ring
          rw [this, zpow_add₀ (by norm_num : (2 : Rat) ≠ 0)]
          norm_num; ring
        rw [e1]
        have : (2 : Rat) ^ (ilog2 y) * (1 / 16777216) ≤ y * (1 / 16777216) := by
          apply mul_le_mul_of_nonneg_right hs; norm_num
        have : (0 : Rat) < (2 : Rat) ^ (-(150 : Int)) := two_zpow_pos _
        linarith
    exact le_trans h hb
  have big : (2 : Rat) ^ (100 : Int) * 2 + 1 < (2 : Rat) ^ ((127 : Int) + 1) := by norm_num
  have tiny : (2 : Rat) ^ (-(150 : Int)) ≤ 1 := by norm_num
  rcases lt_trichotomy x 0 with hneg | hz | hpos
  · have hy : 0 < -x := by linarith
    have hyb : -x ≤ (2 : Rat) ^ (100 : Int) := by rw [abs_of_neg hneg] at hx; exact hx
    have k := key (-x) hy hyb
    have a := abs_le.mp k
    have hr0 : 0 ≤ rnd 24 (-126) (-x) := by
      rw [rnd_pos_eq 24 (-126) (-x) hy]
      have : 0 ≤ roundHalfEven (-x / (2 : Rat) ^ ulpExp 24 (-126) (-x)) :=
        rhe_ge_int _ 0 (by have := two_zpow_pos (ulpExp 24 (-126) (-x)); push_cast; positivity)
      have h2 : (0 : Rat) ≤ ((roundHalfEven (-x / (2 : Rat) ^ ulpExp 24 (-126) (-x)) : Int) : Rat) := by exact_mod_cast this
      exact mul_nonneg h2 (le_of_lt (two_zpow_pos _))
    have hrb : rnd 24 (-126) (-x) < (2 : Rat) ^ ((127 : Int) + 1) := by nlinarith [a.2]
    have := round_neg_fin b32 (-x) hrb hr0
    rw [neg_neg] at this
    have hrn : rnd 24 (-126) x = -rnd 24 (-126) (-x) := by
      have := rnd_neg 24 (-126) (-x); rw [neg_neg] at this; exact this
    refine ⟨by rw [this, hrn]; rfl, ?_⟩
    rw [hrn, abs_of_neg hneg]
    have : -rnd 24 (-126) (-x) - x = -(rnd 24 (-126) (-x) - -x) := by ring
    rw [this, abs_neg]
    exact k
  · rw [hz]
    have : rnd 24 (-126) 0 = 0 := by unfold rnd; simp
    rw [this]
    exact ⟨round_zero, by simp⟩
  · have hyb : x ≤ (2 : Rat) ^ (100 : Int) := by rw [abs_of_pos hpos] at hx; exact hx
    have k := key x hpos hyb
    have a := abs_le.mp k
    have hr0 : 0 ≤ rnd 24 (-126) x := by
      rw [rnd_pos_eq 24 (-126) x hpos]
      have : 0 ≤ roundHalfEven (x / (2 : Rat) ^ ulpExp 24 (-126) x) :=
        rhe_ge_int _ 0 (by have := two_zpow_pos (ulpExp 24 (-126) x); push_cast; positivity)
      have h2 : (0 : Rat) ≤ ((roundHalfEven (x / (2 : Rat) ^ ulpExp 24 (-126) x) : Int) : Rat) := by exact_mod_cast this
      exact mul_nonneg h2 (le_of_lt (two_zpow_pos _))
    have hrb : rnd 24 (-126) x < (2 : Rat) ^ ((127 : Int) + 1) := by nlinarith [a.2]
    refine ⟨round_fin b32 x hrb hr0, ?_⟩
    rw [abs_of_pos hpos]
    exact k

end Sx
