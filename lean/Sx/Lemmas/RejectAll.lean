import Sx.Lemmas.Reject
import Sx.Props.C13
/-
  Helper lemmas for C10: for each driver function, every refusal (INVALID_ARG / INVALID_STATE)
  precedes the first write and any change of the handle.
-/
namespace Sx
open Sx.Model DM Mem Chip

theorem bw_code_invalid : ∀ x : UInt8, ¬(x >>> 4).toNat ≤ 9 → bandwidthOfCode (x >>> 4) = none := by
  apply forall_byte
  decide


attribute [local irreducible] DM.rread DM.sread DM.swrite DM.bwrite DM.bread DM.rawbread DM.cb DM.modH DM.setH
  DM.getH DM.fail DM.ub DM.attempt DM.pure' DM.bind' DM.ofExcept
  freqOfRaw loraFreqError fskFreqError ppmFloat beaconTimers fskBitrateValue ookBitrateValue fdevValue
  calculateBwRegister rssiRefine snrOf bandwidthOfCode F.lt F.gt F.le F.toSInt F.toUInt F.ofBits32 F.div F.ofNat

theorem q_checkModulation (m : Nat) : Quiet (checkModulation m) := by
  unfold checkModulation; repeat (first | quiet_step | split)
theorem q_checkFskOok : Quiet checkFskOok := by
  unfold checkFskOok; repeat (first | quiet_step | split)
theorem q_getFrequency : Quiet getFrequency := by
  unfold getFrequency; repeat (first | quiet_step | split | dsimp only)
theorem q_loraGetBandwidth : Quiet loraGetBandwidth := by
  unfold loraGetBandwidth; repeat (first | exact q_checkModulation _ | quiet_step | split | dsimp only)
theorem q_snr : Quiet loraRxGetPacketSnr := by
  unfold loraRxGetPacketSnr; repeat (first | exact q_checkModulation _ | quiet_step | split | dsimp only)

macro "quiet0" : tactic => `(tactic| repeat (first
  | exact q_checkModulation _ | exact q_checkFskOok | exact q_getFrequency | exact q_loraGetBandwidth | exact q_snr
  | quiet_step | split | dsimp only))

theorem nr_appendRegister (reg : Nat) (v m : UInt8) : NoRej (appendRegister reg v m) := by
  unfold appendRegister; repeat norej_step
theorem nr_packetStore (i : Nat) (v : UInt8) : NoRej (packetStore i v) := by
  unfold packetStore; repeat (first | norej_step | split)
theorem nr_packetCopy (i : Nat) (d : List UInt8) : NoRej (packetCopy i d) := by
  unfold packetCopy; repeat (first | norej_step | split)
theorem nr_withRemaining (n : UInt16) : NoRej (fskOokTxWithRemaining n) := by
  unfold fskOokTxWithRemaining; repeat (first | norej_step | split | dsimp only)
theorem nr_calibrateLoop (fuel : Nat) : NoRej (calibrateLoop fuel) := by
  induction fuel with
  | zero => unfold calibrateLoop; exact NoRej_ub _
  | succ n ih => unfold calibrateLoop; repeat (first | exact ih | norej_step | split)
theorem nr_txSetOcp (e : Bool) (m : UInt8) (hm : ¬ m < 45) : NoRej (txSetOcp e m) := by
  unfold txSetOcp
  rw [if_neg hm]
  repeat (first | norej_step | split | dsimp only)
theorem nr_setFrequency (f : UInt64) : NoRej (setFrequency f) := by
  unfold setFrequency; repeat (first | norej_step | split | dsimp only)

macro "norej0" : tactic => `(tactic| repeat (first
  | exact nr_appendRegister _ _ _ | exact nr_packetStore _ _ | exact nr_packetCopy _ _ | exact nr_withRemaining _
  | exact nr_calibrateLoop _ | exact nr_setFrequency _
  | norej_step | split | dsimp only))

macro "rc0" : tactic => `(tactic| repeat (first
  | exact RC_fail _ | exact RC_pure _
  | (apply RC_bind_quiet; focus (quiet0; done))
  | exact RC_ub _
  | focus (apply RC_of_norej; norej0; done)
  | intro _ | split | dsimp only))

theorem rc_setOpmod (o m : Nat) : RC (setOpmod o m) := by unfold setOpmod; rc0
theorem rc_setFrequency (f : UInt64) : RC (setFrequency f) := by unfold setFrequency; rc0
theorem rc_getFrequency : RC getFrequency := RC_of_quiet q_getFrequency
theorem rc_loraResetFifo : RC loraResetFifo := by unfold loraResetFifo; rc0
theorem rc_rxSetLnaGain (g : Nat) : RC (rxSetLnaGain g) := by unfold rxSetLnaGain; rc0
theorem rc_rxSetLnaBoostHf (e : Bool) : RC (rxSetLnaBoostHf e) := by unfold rxSetLnaBoostHf; rc0
theorem rc_setLdro (e : Bool) : RC (loraSetLowDatarateOptimization e) := by unfold loraSetLowDatarateOptimization; rc0
theorem rc_loraSetSyncword (v : UInt8) : RC (loraSetSyncword v) := by unfold loraSetSyncword; rc0
theorem rc_setPreambleLength (v : UInt16) : RC (setPreambleLength v) := by unfold setPreambleLength; rc0
theorem rc_loraSetImplicitHeader (x : Option (UInt8 × Bool × Nat)) : RC (loraSetImplicitHeader x) := by
  unfold loraSetImplicitHeader; rc0
theorem rc_loraTxSetExplicitHeader (x : Option (Bool × Nat)) : RC (loraTxSetExplicitHeader x) := by
  unfold loraTxSetExplicitHeader; rc0
theorem rc_loraSetFrequencyHopping (p : UInt8) (f : Option (List UInt64)) (l : UInt8) : RC (loraSetFrequencyHopping p f l) := by
  unfold loraSetFrequencyHopping; rc0
theorem rc_rxGetPacketRssi : RC rxGetPacketRssi := by unfold rxGetPacketRssi; rc0
theorem rc_rxGetFrequencyError : RC rxGetFrequencyError := by unfold rxGetFrequencyError; rc0
theorem rc_dumpRegisters : RC dumpRegisters := by unfold dumpRegisters; rc0
theorem rc_txSetOcp (e : Bool) (m : UInt8) : RC (txSetOcp e m) := by unfold txSetOcp; rc0
theorem rc_loraTxSetForTransmission (d : List UInt8) : RC (loraTxSetForTransmission d) := by
  unfold loraTxSetForTransmission; rc0
theorem rc_loraSetPpmOffset (e : Int) : RC (loraSetPpmOffset e) := by unfold loraSetPpmOffset; rc0
theorem rc_fskOokTxSetForTransmission (d : List UInt8) : RC (fskOokTxSetForTransmission d) := by
  unfold fskOokTxSetForTransmission; rc0
theorem rc_fskOokTxSetForTransmissionWithAddress (d : List UInt8) (a : UInt8) : RC (fskOokTxSetForTransmissionWithAddress d a) := by
  unfold fskOokTxSetForTransmissionWithAddress; rc0
theorem rc_fskOokTxStopBeacon : RC fskOokTxStopBeacon := by unfold fskOokTxStopBeacon; rc0
theorem rc_fskOokSetBitrate (b : F) : RC (fskOokSetBitrate b) := by unfold fskOokSetBitrate; rc0
theorem rc_fskSetFdev (b : F) : RC (fskSetFdev b) := by unfold fskSetFdev; rc0
theorem rc_ookRxSetPeakMode (s : Nat) (f : UInt8) (d : Nat) : RC (ookRxSetPeakMode s f d) := by unfold ookRxSetPeakMode; rc0
theorem rc_ookRxSetFixedMode (t : UInt8) : RC (ookRxSetFixedMode t) := by unfold ookRxSetFixedMode; rc0
theorem rc_ookRxSetAvgMode (o t : Nat) : RC (ookRxSetAvgMode o t) := by unfold ookRxSetAvgMode; rc0
theorem rc_fskOokRxSetCollisionRestart (e : Bool) (t : UInt8) : RC (fskOokRxSetCollisionRestart e t) := by
  unfold fskOokRxSetCollisionRestart; rc0
theorem rc_fskOokRxSetAfcAuto (a : Bool) : RC (fskOokRxSetAfcAuto a) := by unfold fskOokRxSetAfcAuto; rc0
theorem rc_fskOokRxSetAfcBandwidth (b : F) : RC (fskOokRxSetAfcBandwidth b) := by unfold fskOokRxSetAfcBandwidth; rc0
theorem rc_fskOokRxSetBandwidth (b : F) : RC (fskOokRxSetBandwidth b) := by unfold fskOokRxSetBandwidth; rc0
theorem rc_fskOokRxSetTrigger (t : Nat) : RC (fskOokRxSetTrigger t) := by unfold fskOokRxSetTrigger; rc0
theorem rc_fskOokSetSyncword (s : List UInt8) : RC (fskOokSetSyncword s) := by unfold fskOokSetSyncword; rc0
theorem rc_fskOokRxSetRssiConfig (s : Nat) (o : Int) : RC (fskOokRxSetRssiConfig s o) := by unfold fskOokRxSetRssiConfig; rc0
theorem rc_fskOokSetPacketEncoding (e : Nat) : RC (fskOokSetPacketEncoding e) := by unfold fskOokSetPacketEncoding; rc0
theorem rc_fskOokSetCrc (c : Nat) : RC (fskOokSetCrc c) := by unfold fskOokSetCrc; rc0
theorem rc_fskOokSetPacketFormat (f : Nat) (l : UInt16) : RC (fskOokSetPacketFormat f l) := by unfold fskOokSetPacketFormat; rc0
theorem rc_fskOokSetAddressFiltering (t : Nat) (n b : UInt8) : RC (fskOokSetAddressFiltering t n b) := by
  unfold fskOokSetAddressFiltering; rc0
theorem rc_fskSetDataShaping (s r : Nat) : RC (fskSetDataShaping s r) := by unfold fskSetDataShaping; rc0
theorem rc_ookSetDataShaping (s r : Nat) : RC (ookSetDataShaping s r) := by unfold ookSetDataShaping; rc0
theorem rc_fskOokSetPreambleType (t : Nat) : RC (fskOokSetPreambleType t) := by unfold fskOokSetPreambleType; rc0
theorem rc_fskOokRxSetPreambleDetector (e : Bool) (s t : UInt8) : RC (fskOokRxSetPreambleDetector e s t) := by
  unfold fskOokRxSetPreambleDetector; rc0
theorem rc_fskOokRxCalibrate (fuel : Nat) : RC (fskOokRxCalibrate fuel) := by unfold fskOokRxCalibrate; rc0
theorem rc_fskOokGetRawTemperature : RC fskOokGetRawTemperature := by unfold fskOokGetRawTemperature; rc0
theorem rc_fskOokSetTempMonitor (e : Bool) : RC (fskOokSetTempMonitor e) := by unfold fskOokSetTempMonitor; rc0
theorem rc_writeRegister (r : Nat) (v : UInt8) : RC (Model.writeRegister r v) := by unfold Model.writeRegister; rc0

theorem rc_loraGetBandwidth : RC loraGetBandwidth := RC_of_quiet q_loraGetBandwidth
theorem rc_snr : RC loraRxGetPacketSnr := RC_of_quiet q_snr

theorem rc_txSetPaConfig (pin : Nat) (power : Int) : RC (txSetPaConfig pin power) := by
  unfold txSetPaConfig
  apply RC_ite (RC_fail _)
  apply RC_ite (RC_fail _)
  dsimp only
  apply RC_of_norej
  repeat (first
    | (apply nr_txSetOcp; split <;> (try split) <;> decide)
    | norej_step)

-- leaf rules of `hwp` for handle-sensitive arguments
theorem hwp_pure (a : α) (h : Handle) (w Q) : ((pure a : DM α) h).hwp w Q ↔ Q w (.ok a, h) := by
  show (DM.pure' a h).hwp w Q ↔ _; unfold DM.pure'; exact Iff.rfl
theorem hwp_fail (c : Code) (h : Handle) (w) (Q : Bool → Except Code α × Handle → Prop) :
    ((fail c : DM α) h).hwp w Q ↔ Q w (.error c, h) := by unfold DM.fail; exact Iff.rfl
theorem hwp_getH (h : Handle) (w Q) : (getH h).hwp w Q ↔ Q w (.ok h, h) := by unfold DM.getH; exact Iff.rfl

theorem hwp_swrite (reg : Nat) (d : List UInt8) (h : Handle) (w Q) : (swrite reg d h).hwp w Q ↔ Q true (.ok (), h) := by
  unfold DM.swrite; exact Iff.rfl
theorem hwp_ub (u : UB) (h : Handle) (w) (Q : Bool → Except Code α × Handle → Prop) : ((DM.ub u : DM α) h).hwp w Q ↔ True := by
  unfold DM.ub; exact Iff.rfl

/-- the transmit call inside the beacon start cannot be refused: the format and the length were
    checked on the same handle -/
theorem nr_tx_at (d : List UInt8) (h : Handle)
    (hm : ¬(h.activeModem ≠ Gen.SX127x_MODULATION_FSK ∧ h.activeModem ≠ Gen.SX127x_MODULATION_OOK))
    (hf : h.format = Gen.SX127X_FIXED) (hl : ¬ d.length > Gen.FIFO_SIZE_FSK) (hcap : ¬ d.length > h.packet.length)
    (w : Bool) :
    (fskOokTxSetForTransmission d h).hwp w (fun _ rh => ∀ c, rh.1 = .error c → ¬isReject c) := by
  unfold fskOokTxSetForTransmission checkFskOok
  simp only [hwp_bind', hwp_getH, hwp_pure, if_neg hm]
  have h1 : ¬(h.format = Gen.SX127X_VARIABLE ∧ d.length > Gen.MAX_PACKET_SIZE) := by
    rw [hf]; intro ⟨e, _⟩; exact absurd e (by decide)
  have h2 : ¬(h.format = Gen.SX127X_FIXED ∧ d.length > Gen.MAX_PACKET_SIZE_FSK_FIXED) := by
    intro ⟨_, e⟩
    have : Gen.FIFO_SIZE_FSK ≤ Gen.MAX_PACKET_SIZE_FSK_FIXED := by decide
    omega
  have h3 : ¬h.format = Gen.SX127X_VARIABLE := by rw [hf]; decide
  have h4 : ¬(d.length + (if h.format = Gen.SX127X_VARIABLE then 1 else 0) > h.packet.length) := by
    rw [if_neg h3]; omega
  rw [if_neg h1, if_neg h2, if_neg h4, if_neg h3]
  have : NoRej (do packetCopy 0 d; fskOokTxWithRemaining (UInt16.ofNat d.length)) := by norej0
  exact this.q h w

/-- `sx127x_fsk_ook_tx_start_beacon`: all refusals precede the first write -/
theorem rc_fskOokTxStartBeacon (d : List UInt8) (i : Nat) : RC (fskOokTxStartBeacon d i) := by
  constructor
  intro h
  unfold fskOokTxStartBeacon checkFskOok
  simp only [hwp_bind', hwp_getH]
  by_cases hm : (h.activeModem ≠ Gen.SX127x_MODULATION_FSK ∧ h.activeModem ≠ Gen.SX127x_MODULATION_OOK)
  · rw [if_pos hm, hwp_fail]; exact fun _ _ _ => ⟨rfl, rfl⟩
  rw [if_neg hm, hwp_pure]
  dsimp only
  by_cases hf : h.format ≠ Gen.SX127X_FIXED
  · rw [if_pos hf, hwp_fail]; exact fun _ _ _ => ⟨rfl, rfl⟩
  rw [if_neg hf]
  by_cases hl : d.length > Gen.FIFO_SIZE_FSK ∨ d.length > h.packet.length
  · rw [if_pos hl, hwp_fail]; exact fun _ _ _ => ⟨rfl, rfl⟩
  rw [if_neg hl]
  have hcap : ¬d.length > h.packet.length := fun x => hl (Or.inr x)
  have hl : ¬d.length > Gen.FIFO_SIZE_FSK := fun x => hl (Or.inl x)
  cases beaconTimers i with
  | none => dsimp only; rw [hwp_ub]; trivial
  | some t =>
    obtain ⟨c1, c2, resol⟩ := t
    dsimp only
    iterate 5 (rw [hwp_bind', hwp_swrite]; dsimp only)
    rw [hwp_bind']
    refine Prog.hwp_mono _ _ _ _ ?_ (nr_tx_at d h hm (by simpa using hf) hl hcap true)
    intro w' ⟨r, h'⟩ hq
    cases r with
    | error c => exact fun c' e hr => absurd hr (hq c' e)
    | ok a =>
      dsimp only
      have : NoRej (do appendRegister Gen.REGPACKETCONFIG2 0x08 0xf7; swrite Gen.REGSEQCONFIG1 [0xa4]) := by norej0
      exact Prog.hwp_mono _ _ _ _ (fun _ _ hq c e r => absurd r (hq c e)) (this.q h' w')
    done

/-- the outcome of a plain execution satisfies what `wp` establishes -/
theorem wp_elim {x : DM α} {h : Handle} {s : PState} {Q : Except Code α → Handle → PState → Prop}
    (hw : wp x h s Q) {r : Except Code α} {h' : Handle} {s' : PState} (hr : runP (x h) s = .done (r, h') s') : Q r h' s' := by
  unfold wp at hw; rw [hr] at hw; exact hw

theorem bw_valid_mem (bw : Nat) (h : ¬(bw % 16 ≠ 0 ∨ bw > Gen.SX127x_BW_500000)) : bw ∈ Gen.enum_sx127x_bw_t := by
  have h5 : Gen.SX127x_BW_500000 = 144 := rfl
  rw [h5] at h
  have : bw = 0 ∨ bw = 16 ∨ bw = 32 ∨ bw = 48 ∨ bw = 64 ∨ bw = 80 ∨ bw = 96 ∨ bw = 112 ∨ bw = 128 ∨ bw = 144 := by omega
  rcases this with e | e | e | e | e | e | e | e | e | e <;> subst e <;> decide

/-- `sx127x_lora_set_bandwidth`: the only refusals are the wrong modulation and an argument that is
    not a bandwidth code, both before the first transfer; with a valid code the call succeeds
    (C13), so the read-back inside the LDRO update cannot refuse after the write -/
theorem c10_setBandwidth (bw : Nat) (h : Handle) (chip : Chip) (wf : chip.WF)
    (hpage : h.activeModem = Gen.SX127x_MODULATION_LORA → chip.isLora = true) :
    RejectClean (loraSetBandwidth bw) h chip := by
  intro c h' s' hr hc
  by_cases hm : h.activeModem = Gen.SX127x_MODULATION_LORA
  · by_cases hbad : (bw % 16 ≠ 0 ∨ bw > Gen.SX127x_BW_500000)
    · have : wp (loraSetBandwidth bw) h ⟨chip, [], []⟩ (fun r h' s' => h' = h ∧ writesP s'.bus = []) := by
        unfold loraSetBandwidth
        simp only [wp_bind, wp_checkModulation, hm, ne_eq, not_true_eq_false, ↓reduceIte]
        rw [wp_ite, if_pos hbad, wp_fail]
        exact ⟨rfl, rfl⟩
      exact wp_elim this hr
    · have := wp_elim (C13_set_bandwidth bw (bw_valid_mem bw hbad) h hm chip wf (hpage hm)) hr
      exact absurd this.1 (by simp)
  · have : wp (loraSetBandwidth bw) h ⟨chip, [], []⟩ (fun r h' s' => h' = h ∧ writesP s'.bus = []) := by
      unfold loraSetBandwidth
      simp only [wp_bind, wp_checkModulation, hm, ne_eq, not_false_eq_true, ↓reduceIte]
      exact ⟨trivial, rfl⟩
    exact wp_elim this hr

/-- `sx127x_lora_set_modem_config_2` with one of the seven spreading factors: refusals (wrong
    modulation, SF6 without implicit header, a reserved bandwidth code retained by the chip) all
    precede the first write; otherwise the call succeeds (C13) -/
theorem c10_setModemConfig2 (sf : Nat) (hsf : sf ∈ Gen.enum_sx127x_sf_t) (h : Handle) (chip : Chip) (wf : chip.WF)
    (hpage : h.activeModem = Gen.SX127x_MODULATION_LORA → chip.isLora = true) :
    RejectClean (loraSetModemConfig2 sf) h chip := by
  intro c h' s' hr hc
  by_cases hm : h.activeModem = Gen.SX127x_MODULATION_LORA
  · have hl := hpage hm
    by_cases h6 : (sf = Gen.SX127x_SF_6 ∧ (!h.implicitHeader) = true)
    · have : wp (loraSetModemConfig2 sf) h ⟨chip, [], []⟩ (fun r h' s' => h' = h ∧ writesP s'.bus = []) := by
        unfold loraSetModemConfig2
        simp only [wp_bind, wp_checkModulation, hm, ne_eq, not_true_eq_false, ↓reduceIte, wp_getH]
        rw [wp_ite, if_pos h6, wp_fail]
        exact ⟨rfl, rfl⟩
      exact wp_elim this hr
    · by_cases hbwc : (chip.lora.rd 0x1d >>> 4).toNat ≤ 9
      · have h6' : sf = Gen.SX127x_SF_6 → h.implicitHeader = true := by
          intro e
          cases hi : h.implicitHeader with
          | true => rfl
          | false => exact absurd ⟨e, by rw [hi]; rfl⟩ h6
        have := wp_elim (C13_set_spreading_factor sf hsf h hm h6' chip wf hl hbwc) hr
        exact absurd this.1 (by simp)
      · have : wp (loraSetModemConfig2 sf) h ⟨chip, [], []⟩ (fun r h' s' => h' = h ∧ writesP s'.bus = []) := by
          unfold loraSetModemConfig2 loraGetBandwidth
          simp only [wp_bind, wp_checkModulation, hm, ne_eq, not_true_eq_false, ↓reduceIte, wp_getH]
          rw [wp_ite, if_neg h6]
          simp only [wp_bind, wp_checkModulation, hm, ne_eq, not_true_eq_false, ↓reduceIte, wp_rread,
            show Gen.REGMODEMCONFIG1 = 0x1d from rfl, readN_one _ 0x1d (by decide), show (0x1d % 128) = 0x1d from rfl,
            peek_lora _ _ hl (show inPage 0x1d = true by decide), be32_single, bw_code_invalid _ hbwc, wp_fail]
          exact ⟨trivial, rfl⟩
        exact wp_elim this hr
  · have : wp (loraSetModemConfig2 sf) h ⟨chip, [], []⟩ (fun r h' s' => h' = h ∧ writesP s'.bus = []) := by
      unfold loraSetModemConfig2
      simp only [wp_bind, wp_checkModulation, hm, ne_eq, not_false_eq_true, ↓reduceIte]
      exact ⟨trivial, rfl⟩
    exact wp_elim this hr


theorem writesP_eq (l : List BusEv) : writesP l = writesOf l := by
  induction l with
  | nil => rfl
  | cons e l ih =>
    show writesP (e :: l) = (e :: l).filter BusEv.isWrite
    rw [List.filter_cons]
    cases e <;> simp [writesP, BusEv.isWrite, ih, writesOf]

end Sx
