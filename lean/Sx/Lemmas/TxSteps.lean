import Sx.Lemmas.TxFifo
namespace Sx
open Sx.Model DM


theorem rds_eq_drop_take (m : Mem) (a n : Nat) (h : a + n ≤ m.length) : m.rds a n = (m.drop a).take n := by
  apply List.ext_getElem
  · simp [Mem.rds]; omega
  · intro i h1 h2
    have hi : i < n := by simpa [Mem.rds] using h1
    simp only [Mem.rds, List.getElem_map, List.getElem_range, Mem.rd, List.getElem_take, List.getElem_drop]
    have : a + i < m.length := by omega
    simp [List.getD, this]

theorem frame_chunk (p : Mem) (L s t : Nat) (hL : L ≤ p.length) (hst : s + t ≤ L) :
    (p.take L).take (s + t) = (p.take L).take s ++ p.rds s t := by
  rw [rds_eq_drop_take _ _ _ (by omega)]
  rw [List.take_take, List.take_take, Nat.min_eq_left hst, Nat.min_eq_left (by omega : s ≤ L)]
  rw [List.take_add]

theorem toSend_val (e r : UInt16) (hle : r.toNat ≤ e.toNat) :
    let diff : Int := (e.toNat : Int) - (r.toNat : Int)
    let toSend : UInt8 := if diff > ((Gen.HALF_MAX_FIFO_THRESHOLD - 1 : Nat) : Int) then u8 (Gen.HALF_MAX_FIFO_THRESHOLD - 1)
                            else UInt8.ofNat (diff % 256).toNat
    toSend.toNat = min (e.toNat - r.toNat) 30 := by
  intro diff toSend
  show (if diff > ((Gen.HALF_MAX_FIFO_THRESHOLD - 1 : Nat) : Int) then u8 (Gen.HALF_MAX_FIFO_THRESHOLD - 1)
                            else UInt8.ofNat (diff % 256).toNat).toNat = _
  have hd : diff = ((e.toNat - r.toNat : Nat) : Int) := by show (e.toNat : Int) - r.toNat = _; omega
  split
  · rename_i hgt
    have : e.toNat - r.toNat > 30 := by rw [hd] at hgt; simp [Gen.HALF_MAX_FIFO_THRESHOLD] at hgt; omega
    rw [Nat.min_eq_right (by omega)]; rfl
  · rename_i hgt
    have h30 : e.toNat - r.toNat ≤ 30 := by rw [hd] at hgt; simp [Gen.HALF_MAX_FIFO_THRESHOLD] at hgt; omega
    rw [Nat.min_eq_left h30, hd]
    have : ((e.toNat - r.toNat : Nat) : Int) % 256 = ((e.toNat - r.toNat : Nat) : Int) := by omega
    rw [this]
    simp
    omega


/-- `g1` is `g` after the modulator has taken some bytes (and flags were read) -/
structure TxG.Later (g g1 : TxG) : Prop where
  handed : g1.handed = g.handed
  cbs : g1.cbs = g.cbs
  ended : g1.ended = g.ended
  poison : g1.poison = g.poison
  cons : g.Conserved → g1.Conserved
  len : g1.fifo.length ≤ g.fifo.length
  empty : g.fifo = [] → g1.fifo = []

namespace TxG
theorem Later.refl (g : TxG) : g.Later g := ⟨rfl, rfl, rfl, rfl, id, Nat.le_refl _, id⟩
theorem Later.trans {a b c : TxG} (h1 : a.Later b) (h2 : b.Later c) : a.Later c :=
  ⟨h2.handed.trans h1.handed, h2.cbs.trans h1.cbs, h2.ended.trans h1.ended, h2.poison.trans h1.poison,
   fun h => h2.cons (h1.cons h), Nat.le_trans h2.len h1.len, fun h => h2.empty (h1.empty h)⟩
theorem later_shift (g : TxG) (k : Nat) : g.Later (g.shift k) :=
  ⟨rfl, rfl, rfl, rfl, fun h => shift_conserved h k, by simp [shift], fun h => by simp [shift, h]⟩
theorem later_shift_irq (g : TxG) (k : Nat) (v : UInt8) : g.Later { g.shift k with irq := v } :=
  ⟨rfl, rfl, rfl, rfl, fun h => shift_conserved h k, by simp [shift], fun h => by simp [shift, h]⟩
theorem Later.live {g g1 : TxG} (h : g.Later g1) (hl : g.live) : g1.live := ⟨h.poison.trans hl.1, h.ended.trans hl.2⟩
end TxG

theorem txR_live {g : TxG} (hl : g.live) (q a g') : txE.R g q a g' ↔ txRLive g q a g' := by
  show txR g q a g' ↔ _
  unfold txR
  rw [if_neg (by simp [hl.1, hl.2])]

theorem txR_read {g : TxG} (hl : g.live) (r g') (hr : txE.R g (.rread Gen.REGIRQFLAGS2) (.u8 r) g') :
    g.Later g' ∧ match r with
      | .ok v => g'.irq = v ∧ TxFlagsOk v g'.fifo
      | .error _ => g'.irq = g.irq := by
  rw [txR_live hl] at hr
  unfold txRLive at hr
  simp only [show Gen.REGIRQFLAGS2 = 0x3f from rfl, ↓reduceIte] at hr
  cases r with
  | ok v => obtain ⟨k, rfl, hf⟩ := hr; exact ⟨TxG.later_shift_irq g k v, rfl, hf⟩
  | error c => obtain ⟨k, rfl⟩ := hr; exact ⟨TxG.later_shift g k, rfl⟩

theorem txR_ack {g : TxG} (hl : g.live) (v : UInt8) (hv : v &&& 0x10 = 0) (r g')
    (hr : txE.R g (.swrite Gen.REGIRQFLAGS2 [v]) (.unit r) g') : g.Later g' ∧ g'.irq = g.irq := by
  rw [txR_live hl] at hr
  unfold txRLive at hr
  simp only [show Gen.REGIRQFLAGS2 = 0x3f from rfl, List.length_singleton, List.headD_cons, hv, and_self, ↓reduceIte] at hr
  obtain ⟨k, rfl⟩ := hr
  exact ⟨TxG.later_shift g k, rfl⟩

theorem txR_fifo_err {g : TxG} (hl : g.live) (d : List UInt8) (c g')
    (hr : txE.R g (.bwrite Gen.REGFIFO d) (.unit (.error c)) g') : g.Later g' ∧ g'.irq = g.irq := by
  rw [txR_live hl] at hr
  unfold txRLive at hr
  simp only [show Gen.REGFIFO = 0 from rfl, ↓reduceIte] at hr
  obtain ⟨k, rfl⟩ := hr
  exact ⟨TxG.later_shift g k, rfl⟩

theorem txR_fifo_ok {g : TxG} (hl : g.live) (hc : g.Conserved) (d : List UInt8) (hroom : g.fifo.length + d.length ≤ 64) (u g')
    (hr : txE.R g (.bwrite Gen.REGFIFO d) (.unit (.ok u)) g') :
    g'.live ∧ g'.Conserved ∧ g'.handed = g.handed ++ d ∧ g'.cbs = g.cbs ∧ g'.irq = g.irq := by
  rw [txR_live hl] at hr
  unfold txRLive at hr
  simp only [show Gen.REGFIFO = 0 from rfl, ↓reduceIte] at hr
  obtain ⟨k, rfl⟩ := hr
  have hlen : (g.shift k).fifo.length + d.length ≤ 64 := by
    have := (TxG.later_shift g k).len; omega
  have hcs := TxG.put_conserved (TxG.shift_conserved hc k) d
  unfold TxG.put at *
  rw [if_pos hlen] at *
  exact ⟨⟨hl.1, hl.2⟩, hcs, rfl, rfl, rfl⟩

theorem take_wrs (m : Mem) (a : Nat) (d : List UInt8) (h : a + d.length ≤ m.length) :
    (m.wrs a d).take (a + d.length) = m.take a ++ d := by
  rw [wrs_eq d m a h, List.take_append]
  have hl : (List.take a m ++ d).length = a + d.length := by simp [List.length_take]; omega
  rw [hl, List.take_of_length_le (by omega), Nat.sub_self]; simp

theorem take_one_wr0 (m : Mem) (v : UInt8) (h : 0 < m.length) : (m.wr 0 v).take 1 = [v] := by
  cases m with
  | nil => simp at h
  | cons x xs => simp [Mem.wr]

theorem take_two_wr01 (m : Mem) (a b : UInt8) (h : 1 < m.length) : ((m.wr 0 a).wr 1 b).take 2 = [a, b] := by
  match m, h with
  | x :: y :: rest, _ => simp [Mem.wr]


end Sx
