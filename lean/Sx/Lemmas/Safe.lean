import Sx.Api
/-
  Absence of undefined behaviour in driver programs (C08).

  `Prog.Safe bad I p`: whatever chip and bus answer (values and failures), and whatever handle
  satisfying `I` the application leaves behind inside a callback, `p` never reaches undefined
  behaviour of a kind in `bad`, and every way it can end leaves a handle satisfying `I`.
-/
namespace Sx

variable {α β : Type}

def Prog.Safe (bad : UB → Prop) (I : Handle → Prop) : Prog (Except Code α × Handle) → Prop
  | .ret rh => I rh.2
  | .ub u => ¬bad u
  | .sread _ _ k => ∀ r, (k r).Safe bad I
  | .rread _ k => ∀ r, (k r).Safe bad I
  | .swrite _ _ k => ∀ r, (k r).Safe bad I
  | .bwrite _ _ k => ∀ r, (k r).Safe bad I
  | .bread _ n k => ∀ r, (∀ d, r = .ok d → d.length = n) → (k r).Safe bad I
  | .rawbread _ n k => ∀ r, (∀ d, r = .ok d → d.length = n) → (k r).Safe bad I
  | .callback _ h k => I h ∧ ∀ h', I h' → (k h').Safe bad I

theorem Prog.Safe_bind {bad : UB → Prop} {I : Handle → Prop} {p : Prog (Except Code α × Handle)}
    {g : Except Code α × Handle → Prog (Except Code β × Handle)}
    (hp : p.Safe bad I) (hg : ∀ rh, I rh.2 → (g rh).Safe bad I) : (p.bind g).Safe bad I := by
  induction p with
  | ret a => exact hg a hp
  | ub u => exact hp
  | sread reg n k ih => exact fun r => ih r (hp r)
  | rread reg k ih => exact fun r => ih r (hp r)
  | swrite reg d k ih => exact fun r => ih r (hp r)
  | bwrite reg d k ih => exact fun r => ih r (hp r)
  | bread reg n k ih => exact fun r hr => ih r (hp r hr)
  | rawbread reg n k ih => exact fun r hr => ih r (hp r hr)
  | callback e h k ih => exact ⟨hp.1, fun h' hi => ih h' (hp.2 h' hi)⟩

/-- started from a handle satisfying `I` -/
structure DM.SafeI (bad : UB → Prop) (I : Handle → Prop) (x : DM α) : Prop where
  s : ∀ h, I h → (x h).Safe bad I

namespace DM
variable {bad : UB → Prop} {I : Handle → Prop}

theorem SafeI_pure (a : α) : SafeI bad I (pure a : DM α) := ⟨fun _ hi => hi⟩
theorem SafeI_pure' (a : α) : SafeI bad I (pure' a : DM α) := ⟨fun _ hi => hi⟩
theorem SafeI_fail (c : Code) : SafeI bad I (fail c : DM α) := ⟨fun _ hi => hi⟩
theorem SafeI_ub (u : UB) (hu : ¬bad u) : SafeI bad I (DM.ub u : DM α) := ⟨fun _ _ => hu⟩
theorem SafeI_getH : SafeI bad I getH := ⟨fun _ hi => hi⟩
theorem SafeI_setH (h : Handle) (hh : I h) : SafeI bad I (setH h) := ⟨fun _ _ => hh⟩
theorem SafeI_modH (f : Handle → Handle) (hf : ∀ h, I h → I (f h)) : SafeI bad I (modH f) := ⟨fun h hi => hf h hi⟩
theorem SafeI_cb (e : CbEvent) : SafeI bad I (cb e) := ⟨fun _ hi => ⟨hi, fun _ hi' => hi'⟩⟩
theorem SafeI_sread (reg n : Nat) : SafeI bad I (sread reg n) := ⟨fun _ hi _ => hi⟩
theorem SafeI_rread (reg : Nat) : SafeI bad I (rread reg) := ⟨fun _ hi _ => hi⟩
theorem SafeI_swrite (reg : Nat) (d : List UInt8) : SafeI bad I (swrite reg d) := ⟨fun _ hi _ => hi⟩
theorem SafeI_bwrite (reg : Nat) (d : List UInt8) : SafeI bad I (bwrite reg d) := ⟨fun _ hi _ => hi⟩
theorem SafeI_bread (reg n : Nat) : SafeI bad I (bread reg n) := ⟨fun _ hi _ _ => hi⟩
theorem SafeI_rawbread (reg n : Nat) : SafeI bad I (rawbread reg n) := ⟨fun _ hi _ _ => hi⟩
theorem SafeI_ofExcept (r : Except Code α) : SafeI bad I (ofExcept r) := by cases r <;> exact ⟨fun _ hi => hi⟩

theorem SafeI_bind {x : DM α} {f : α → DM β} (hx : SafeI bad I x) (hf : ∀ a, SafeI bad I (f a)) : SafeI bad I (x >>= f) := by
  constructor
  intro h hi
  show ((x h).bind _).Safe bad I
  apply Prog.Safe_bind (hx.s h hi)
  intro ⟨r, h'⟩ hi'
  cases r with
  | ok a => exact (hf a).s h' hi'
  | error c => exact hi'

/-- the value `getH` hands to the rest of the function is a handle that satisfies `I` -/
theorem SafeI_getH_bind {f : Handle → DM β} (hf : ∀ h, I h → SafeI bad I (f h)) : SafeI bad I (getH >>= f) := by
  constructor
  intro h hi
  exact (hf h hi).s h hi

/-- a burst read hands exactly the number of bytes asked for to the rest of the function -/
theorem SafeI_bread_bind {reg n : Nat} {f : List UInt8 → DM β} (hf : ∀ d, d.length = n → SafeI bad I (f d)) :
    SafeI bad I (bread reg n >>= f) := by
  constructor
  intro h hi r hr
  cases r with
  | ok d => exact (hf d (hr d rfl)).s h hi
  | error c => exact hi

/-- after `setH h0` the rest runs from `h0`, whatever the handle was -/
theorem Safe_setH_bind (h0 h : Handle) (f : Unit → DM β) (hs : (f () h0).Safe bad I) : ((setH h0 >>= f) h).Safe bad I := hs

theorem SafeI_attempt {x : DM α} (hx : SafeI bad I x) : SafeI bad I (attempt x) := by
  constructor
  intro h hi
  show ((x h).bind _).Safe bad I
  apply Prog.Safe_bind (hx.s h hi)
  intro ⟨r, h'⟩ hi'
  exact hi'

theorem SafeI_ite {c : Prop} [Decidable c] {x y : DM α} (hx : c → SafeI bad I x) (hy : ¬c → SafeI bad I y) :
    SafeI bad I (if c then x else y) := by
  split
  · rename_i h; exact hx h
  · rename_i h; exact hy h

end DM

/-- one step of the structural traversal -/
macro "safe_step" : tactic => `(tactic| first
  | intro _
  | exact DM.SafeI_pure _ | exact DM.SafeI_pure' _ | exact DM.SafeI_fail _ | exact DM.SafeI_getH
  | exact DM.SafeI_cb _
  | exact DM.SafeI_sread _ _ | exact DM.SafeI_rread _ | exact DM.SafeI_swrite _ _ | exact DM.SafeI_bwrite _ _
  | exact DM.SafeI_bread _ _ | exact DM.SafeI_rawbread _ _ | exact DM.SafeI_ofExcept _
  | apply DM.SafeI_getH_bind
  | apply DM.SafeI_bread_bind
  | apply DM.SafeI_bind | apply DM.SafeI_attempt
  | assumption)

end Sx
