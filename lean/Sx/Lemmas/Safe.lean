import Sx.Api
/-
  Absence of undefined behaviour in driver programs (C08).

  `Prog.Safe bad G I p`: whatever chip and bus answer (values and failures), and whatever handle
  satisfying `I` the application leaves behind inside a callback, `p` never reaches undefined
  behaviour of a kind in `bad`, and every way it can end leaves a handle satisfying `I`.
-/
namespace Sx

variable {α β : Type}

def Prog.Safe (bad : UB → Prop) (G : CbEvent → Prop) (I : Handle → Prop) : Prog (Except Code α × Handle) → Prop
  | .ret rh => I rh.2
  | .ub u => ¬bad u
  | .sread _ n k => ∀ r, (∀ v, r = .ok v → v.toNat < 2 ^ (8 * n)) → (k r).Safe bad G I
  | .rread _ k => ∀ r, (k r).Safe bad G I
  | .swrite _ _ k => ∀ r, (k r).Safe bad G I
  | .bwrite _ _ k => ∀ r, (k r).Safe bad G I
  | .bread _ n k => ∀ r, (∀ d, r = .ok d → d.length = n) → (k r).Safe bad G I
  | .rawbread _ n k => ∀ r, (∀ d, r = .ok d → d.length = n) → (k r).Safe bad G I
  | .callback e h k => (G e ∧ I h) ∧ ∀ h', I h' → (k h').Safe bad G I

theorem Prog.Safe_bind {bad : UB → Prop} {G : CbEvent → Prop} {I : Handle → Prop} {p : Prog (Except Code α × Handle)}
    {g : Except Code α × Handle → Prog (Except Code β × Handle)}
    (hp : p.Safe bad G I) (hg : ∀ rh, I rh.2 → (g rh).Safe bad G I) : (p.bind g).Safe bad G I := by
  induction p with
  | ret a => exact hg a hp
  | ub u => exact hp
  | sread reg n k ih => exact fun r hr => ih r (hp r hr)
  | rread reg k ih => exact fun r => ih r (hp r)
  | swrite reg d k ih => exact fun r => ih r (hp r)
  | bwrite reg d k ih => exact fun r => ih r (hp r)
  | bread reg n k ih => exact fun r hr => ih r (hp r hr)
  | rawbread reg n k ih => exact fun r hr => ih r (hp r hr)
  | callback e h k ih => exact ⟨hp.1, fun h' hi => ih h' (hp.2 h' hi)⟩

/-- started from a handle satisfying `I` -/
structure DM.SafeI (bad : UB → Prop) (G : CbEvent → Prop) (I : Handle → Prop) (x : DM α) : Prop where
  s : ∀ h, I h → (x h).Safe bad G I

namespace DM
variable {bad : UB → Prop} {G : CbEvent → Prop} {I : Handle → Prop}

theorem SafeI_pure (a : α) : SafeI bad G I (pure a : DM α) := ⟨fun _ hi => hi⟩
theorem SafeI_pure' (a : α) : SafeI bad G I (pure' a : DM α) := ⟨fun _ hi => hi⟩
theorem SafeI_fail (c : Code) : SafeI bad G I (fail c : DM α) := ⟨fun _ hi => hi⟩
theorem SafeI_ub (u : UB) (hu : ¬bad u) : SafeI bad G I (DM.ub u : DM α) := ⟨fun _ _ => hu⟩
theorem SafeI_getH : SafeI bad G I getH := ⟨fun _ hi => hi⟩
theorem SafeI_setH (h : Handle) (hh : I h) : SafeI bad G I (setH h) := ⟨fun _ _ => hh⟩
theorem SafeI_modH (f : Handle → Handle) (hf : ∀ h, I h → I (f h)) : SafeI bad G I (modH f) := ⟨fun h hi => hf h hi⟩
theorem SafeI_cb (e : CbEvent) (hg : G e) : SafeI bad G I (cb e) := ⟨fun _ hi => ⟨⟨hg, hi⟩, fun _ hi' => hi'⟩⟩
theorem SafeI_sread (reg n : Nat) : SafeI bad G I (sread reg n) := ⟨fun _ hi _ _ => hi⟩
theorem SafeI_rread (reg : Nat) : SafeI bad G I (rread reg) := ⟨fun _ hi _ => hi⟩
theorem SafeI_swrite (reg : Nat) (d : List UInt8) : SafeI bad G I (swrite reg d) := ⟨fun _ hi _ => hi⟩
theorem SafeI_bwrite (reg : Nat) (d : List UInt8) : SafeI bad G I (bwrite reg d) := ⟨fun _ hi _ => hi⟩
theorem SafeI_bread (reg n : Nat) : SafeI bad G I (bread reg n) := ⟨fun _ hi _ _ => hi⟩
theorem SafeI_rawbread (reg n : Nat) : SafeI bad G I (rawbread reg n) := ⟨fun _ hi _ _ => hi⟩
theorem SafeI_ofExcept (r : Except Code α) : SafeI bad G I (ofExcept r) := by cases r <;> exact ⟨fun _ hi => hi⟩

theorem SafeI_bind {x : DM α} {f : α → DM β} (hx : SafeI bad G I x) (hf : ∀ a, SafeI bad G I (f a)) : SafeI bad G I (x >>= f) := by
  constructor
  intro h hi
  show ((x h).bind _).Safe bad G I
  apply Prog.Safe_bind (hx.s h hi)
  intro ⟨r, h'⟩ hi'
  cases r with
  | ok a => exact (hf a).s h' hi'
  | error c => exact hi'

/-- the value `getH` hands to the rest of the function is a handle that satisfies `I` -/
theorem SafeI_getH_bind {f : Handle → DM β} (hf : ∀ h, I h → SafeI bad G I (f h)) : SafeI bad G I (getH >>= f) := by
  constructor
  intro h hi
  exact (hf h hi).s h hi

/-- a burst read hands exactly the number of bytes asked for to the rest of the function -/
theorem SafeI_bread_bind {reg n : Nat} {f : List UInt8 → DM β} (hf : ∀ d, d.length = n → SafeI bad G I (f d)) :
    SafeI bad G I (bread reg n >>= f) := by
  constructor
  intro h hi r hr
  cases r with
  | ok d => exact (hf d (hr d rfl)).s h hi
  | error c => exact hi

/-- a register read of `n` bytes hands a value below `2^(8n)` to the rest of the function -/
theorem SafeI_sread_bind {reg n : Nat} {f : UInt32 → DM β} (hf : ∀ v : UInt32, v.toNat < 2 ^ (8 * n) → SafeI bad G I (f v)) :
    SafeI bad G I (sread reg n >>= f) := by
  constructor
  intro h hi r hr
  cases r with
  | ok v => exact (hf v (hr v rfl)).s h hi
  | error c => exact hi

/-- after `setH h0` the rest runs from `h0`, whatever the handle was -/
theorem Safe_setH_bind (h0 h : Handle) (f : Unit → DM β) (hs : (f () h0).Safe bad G I) : ((setH h0 >>= f) h).Safe bad G I := hs

theorem SafeI_attempt {x : DM α} (hx : SafeI bad G I x) : SafeI bad G I (attempt x) := by
  constructor
  intro h hi
  show ((x h).bind _).Safe bad G I
  apply Prog.Safe_bind (hx.s h hi)
  intro ⟨r, h'⟩ hi'
  exact hi'

theorem SafeI_ite {c : Prop} [Decidable c] {x y : DM α} (hx : c → SafeI bad G I x) (hy : ¬c → SafeI bad G I y) :
    SafeI bad G I (if c then x else y) := by
  split
  · rename_i h; exact hx h
  · rename_i h; exact hy h

/-! ### pointed rules: the program run from one given handle

  `SafeI_bind` forgets everything about the handle between two statements except `I`.  Where a
  function updates a counter it has just compared with a bound (`received`), the statements are
  followed from the concrete handle instead. -/

theorem Safe_at_getH_bind (f : Handle → DM β) (h : Handle) :
    ((getH >>= f) h).Safe bad G I ↔ ((f h) h).Safe bad G I := Iff.rfl
theorem Safe_at_modH_bind (m : Handle → Handle) (f : Unit → DM β) (h : Handle) :
    ((modH m >>= f) h).Safe bad G I ↔ ((f ()) (m h)).Safe bad G I := Iff.rfl
theorem Safe_at_modH (m : Handle → Handle) (h : Handle) : ((modH m) h).Safe bad G I ↔ I (m h) := Iff.rfl
theorem Safe_at_cb (e : CbEvent) (h : Handle) : ((cb e) h).Safe bad G I ↔ (G e ∧ I h) ∧ ∀ h', I h' → I h' := Iff.rfl
theorem Safe_at_pure (a : α) (h : Handle) : ((pure a : DM α) h).Safe bad G I ↔ I h := Iff.rfl
theorem Safe_at_fail (c : Code) (h : Handle) : ((fail c : DM α) h).Safe bad G I ↔ I h := Iff.rfl
theorem Safe_at_ub (u : UB) (h : Handle) : ((DM.ub u : DM α) h).Safe bad G I ↔ ¬bad u := Iff.rfl
theorem Safe_at_ub_bind (u : UB) (f : α → DM β) (h : Handle) : ((DM.ub u >>= f) h).Safe bad G I ↔ ¬bad u := Iff.rfl
theorem Safe_at_pure_bind (a : α) (f : α → DM β) (h : Handle) :
    ((pure a >>= f) h).Safe bad G I ↔ ((f a) h).Safe bad G I := Iff.rfl
theorem Safe_at_rread_bind (reg : Nat) (f : UInt8 → DM β) (h : Handle) (hi : I h)
    (hf : ∀ v, ((f v) h).Safe bad G I) : ((rread reg >>= f) h).Safe bad G I := by
  intro r
  cases r with
  | ok v => exact hf v
  | error c => exact hi
theorem Safe_at_bwrite_bind (reg : Nat) (d : List UInt8) (f : Unit → DM β) (h : Handle) (hi : I h)
    (hf : ((f ()) h).Safe bad G I) : ((bwrite reg d >>= f) h).Safe bad G I := by
  intro r
  cases r with
  | ok v => exact hf
  | error c => exact hi
theorem Safe_at_bread_bind (reg n : Nat) (f : List UInt8 → DM β) (h : Handle) (hi : I h)
    (hf : ∀ d, d.length = n → ((f d) h).Safe bad G I) : ((bread reg n >>= f) h).Safe bad G I := by
  intro r hr
  cases r with
  | ok d => exact hf d (hr d rfl)
  | error c => exact hi
theorem Safe_at_packetStore_bind (i : Nat) (v : UInt8) (f : Unit → DM β) (h : Handle) (hi : i < h.packet.length)
    (hs : ((f ()) { h with packet := h.packet.wr i v }).Safe bad G I) :
    ((Model.packetStore i v >>= f) h).Safe bad G I := by
  unfold Model.packetStore
  show (((if i < h.packet.length then setH { h with packet := h.packet.wr i v } else DM.ub .oobPacket) h).bind _).Safe bad G I
  rw [if_pos hi]
  exact hs
theorem Safe_at_packetCopy_bind (off : Nat) (d : List UInt8) (f : Unit → DM β) (h : Handle)
    (hi : off + d.length ≤ h.packet.length)
    (hs : ((f ()) { h with packet := h.packet.wrs off d }).Safe bad G I) :
    ((Model.packetCopy off d >>= f) h).Safe bad G I := by
  unfold Model.packetCopy
  show (((if off + d.length ≤ h.packet.length then setH { h with packet := h.packet.wrs off d } else DM.ub .oobPacket) h).bind _).Safe bad G I
  rw [if_pos hi]
  exact hs
theorem Safe_at_ite {c : Prop} [Decidable c] {x y : DM α} (h : Handle)
    (hx : c → (x h).Safe bad G I) (hy : ¬c → (y h).Safe bad G I) : ((if c then x else y) h).Safe bad G I := by
  split
  · rename_i hc; exact hx hc
  · rename_i hc; exact hy hc
theorem Safe_at_bind_of {x : DM α} {f : α → DM β} (h : Handle) (hx : (x h).Safe bad G I)
    (hf : ∀ a h', I h' → ((f a) h').Safe bad G I) : ((x >>= f) h).Safe bad G I := by
  show ((x h).bind _).Safe bad G I
  apply Prog.Safe_bind hx
  intro ⟨r, h'⟩ hi'
  cases r with
  | ok a => exact hf a h' hi'
  | error c => exact hi'
/-- fall back to the unpointed rule for a statement about which only `I` is needed afterwards -/
theorem Safe_at_bind {x : DM α} {f : α → DM β} (hx : SafeI bad G I x) (h : Handle) (hi : I h)
    (hf : ∀ a h', I h' → ((f a) h').Safe bad G I) : ((x >>= f) h).Safe bad G I := by
  show ((x h).bind _).Safe bad G I
  apply Prog.Safe_bind (hx.s h hi)
  intro ⟨r, h'⟩ hi'
  cases r with
  | ok a => exact hf a h' hi'
  | error c => exact hi'

end DM

/-- one step of the structural traversal -/
macro "safe_step" : tactic => `(tactic| first
  | intro _
  | exact DM.SafeI_pure _ | exact DM.SafeI_pure' _ | exact DM.SafeI_fail _ | exact DM.SafeI_getH
  | exact DM.SafeI_cb _ (by trivial)
  | exact DM.SafeI_sread _ _ | exact DM.SafeI_rread _ | exact DM.SafeI_swrite _ _ | exact DM.SafeI_bwrite _ _
  | exact DM.SafeI_bread _ _ | exact DM.SafeI_rawbread _ _ | exact DM.SafeI_ofExcept _
  | apply DM.SafeI_getH_bind
  | apply DM.SafeI_bread_bind
  | apply DM.SafeI_bind | apply DM.SafeI_attempt
  | assumption)

end Sx
