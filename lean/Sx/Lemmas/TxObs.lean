import Sx.Lemmas.TxCovers
import Sx.Lemmas.GhostCbs
/-
  The transmit environment as a `CbsEnv` (see Lemmas/GhostCbs.lean).
-/
namespace Sx
open Sx.Model

theorem TxG.shift_cbs (g : TxG) (k : Nat) : (g.shift k).cbs = g.cbs := by unfold TxG.shift; rfl
theorem TxG.put_cbs (g : TxG) (d : List UInt8) : (g.put d).cbs = g.cbs := by
  unfold TxG.put
  repeat (first | rfl | split | dsimp only)

theorem txR_cbs {g : TxG} {q : Req} {a : Ans} {g' : TxG} (h : txE.R g q a g') (hp : ¬g'.poison = true) : g'.cbs = g.cbs := by
  have h' : txR g q a g' := h
  unfold txR at h'
  split at h'
  · rw [h']
  · unfold txRLive at h'
    split at h'
    · split at h'
      · split at h'
        · obtain ⟨k, e, _⟩ := h'; rw [e]; exact TxG.shift_cbs g k
        · obtain ⟨k, e⟩ := h'; rw [e]; exact TxG.shift_cbs _ _
      · exact absurd h' hp
    · split at h'
      · obtain ⟨k, e⟩ := h'; rw [e]; exact TxG.shift_cbs _ _
      · exact absurd h' hp
    · split at h'
      · split at h'
        · obtain ⟨k, e⟩ := h'; rw [e, TxG.put_cbs]; exact TxG.shift_cbs _ _
        · obtain ⟨k, e⟩ := h'; rw [e]; exact TxG.shift_cbs _ _
      · exact absurd h' hp
    · exact absurd h' hp

/-- the transmit environment keeps the callback list except at callbacks, where it appends -/
def txK : CbsEnv txE where
  cbsOf := TxG.cbs
  bad g := g.poison = true
  R_keeps := fun _ _ _ _ h hp => txR_cbs h hp
  R_bad := by
    intro g q a g' h hb
    have h' : txR g q a g' := h
    unfold txR at h'
    rw [if_pos (Or.inl hb)] at h'
    rw [h']; exact hb
  C_appends := by
    intro g e h h' g' hc _
    have : g' = { g with cbs := g.cbs ++ [e], ended := true } := hc
    rw [this]
  C_bad := by
    intro g e h h' g' hc hb
    have : g' = { g with cbs := g.cbs ++ [e], ended := true } := hc
    rw [this]; exact hb

end Sx
