import Sx.Lemmas.Safe
import Sx.Lemmas.FailFast
/-
  Sequencing with a postcondition: what `Prog.fwp` establishes about the way a statement ends may
  be used by the statements after it.
-/
namespace Sx
open DM

variable {α β : Type} {bad : UB → Prop} {G : CbEvent → Prop} {I : Handle → Prop}

theorem Prog.Safe_bind_post {p : Prog (Except Code α × Handle)}
    {g : Except Code α × Handle → Prog (Except Code β × Handle)} (Q : Except Code α × Handle → Prop) (f : Bool)
    (hp : p.Safe bad G I) (hq : p.fwp f (fun _ rh => Q rh))
    (hg : ∀ rh, I rh.2 → Q rh → (g rh).Safe bad G I) : (p.bind g).Safe bad G I := by
  induction p generalizing f with
  | ret a => exact hg a hp hq
  | ub u => exact hp
  | sread reg n k ih =>
    intro r hr
    cases r with
    | ok v => exact ih _ f (hp _ hr) (hq.1 v)
    | error c => exact ih _ true (hp _ hr) (hq.2 c)
  | rread reg k ih =>
    intro r
    cases r with
    | ok v => exact ih _ f (hp _) (hq.1 v)
    | error c => exact ih _ true (hp _) (hq.2 c)
  | swrite reg d k ih =>
    intro r
    cases r with
    | ok v => exact ih _ f (hp _) hq.1
    | error c => exact ih _ true (hp _) (hq.2 c)
  | bwrite reg d k ih =>
    intro r
    cases r with
    | ok v => exact ih _ f (hp _) hq.1
    | error c => exact ih _ true (hp _) (hq.2 c)
  | bread reg n k ih =>
    intro r hr
    cases r with
    | ok v => exact ih _ f (hp _ hr) (hq.1 v)
    | error c => exact ih _ true (hp _ hr) (hq.2 c)
  | rawbread reg n k ih =>
    intro r hr
    cases r with
    | ok v => exact ih _ f (hp _ hr) (hq.1 v)
    | error c => exact ih _ true (hp _ hr) (hq.2 c)
  | callback e h k ih => exact ⟨hp.1, fun h' hi => ih h' f (hp.2 h' hi) (hq.2 h')⟩

namespace DM

/-- `x; rest`, where `rest` may rely on what a successful `x` is known to leave behind -/
theorem SafeI_bind_post {x : DM α} {g : α → DM β} (Q : Except Code α → Handle → Prop)
    (hx : SafeI bad G I x) (hq : ∀ h, (x h).fwp false (fun _ rh => Q rh.1 rh.2))
    (hg : ∀ a h', I h' → Q (.ok a) h' → ((g a) h').Safe bad G I) : SafeI bad G I (x >>= g) := by
  constructor
  intro h hi
  show ((x h).bind _).Safe bad G I
  refine Prog.Safe_bind_post (fun rh => Q rh.1 rh.2) false (hx.s h hi) (hq h) ?_
  intro ⟨r, h'⟩ hi' hq'
  cases r with
  | ok a => exact hg a h' hi' hq'
  | error c => exact hi'

/-- `r = attempt x; rest r`, where `rest` may rely on what `x` is known to leave behind -/
theorem SafeI_attempt_bind_post {x : DM α} {g : Except Code α → DM β} (Q : Except Code α → Handle → Prop)
    (hx : SafeI bad G I x) (hq : ∀ h, (x h).fwp false (fun _ rh => Q rh.1 rh.2))
    (hg : ∀ r h', I h' → Q r h' → ((g r) h').Safe bad G I) : SafeI bad G I (attempt x >>= g) := by
  refine SafeI_bind_post (fun r h' => ∀ r', r = .ok r' → Q r' h') (SafeI_attempt hx) ?_ ?_
  · intro h
    rw [fwp_attempt]
    refine Prog.fwp_mono _ _ _ _ ?_ (hq h)
    intro f' rh hq' r' e
    cases e
    exact hq'
  · intro r h' hi' hq'
    exact hg r h' hi' (hq' r rfl)

end DM
end Sx
