import Sx.Basic
/- Basic facts about byte memories. -/
namespace Sx.Mem

@[simp] theorem length_wr (m : Mem) (a : Nat) (v : UInt8) : (m.wr a v).length = m.length := by
  simp [wr]

theorem rd_wr (m : Mem) (a b : Nat) (v : UInt8) :
    (m.wr a v).rd b = if a = b ∧ a < m.length then v else m.rd b := by
  unfold rd wr
  by_cases h : a = b
  · subst h
    by_cases hl : a < m.length
    · simp [List.getD, hl]
    · simp [List.getD, hl]
  · simp [List.getD, h]

theorem rd_wr_same (m : Mem) (a : Nat) (v : UInt8) (h : a < m.length) : (m.wr a v).rd a = v := by
  simp [rd_wr, h]

theorem rd_wr_ne (m : Mem) (a b : Nat) (v : UInt8) (h : a ≠ b) : (m.wr a v).rd b = m.rd b := by
  simp [rd_wr, h]

@[simp] theorem length_wrs (m : Mem) (a : Nat) (d : List UInt8) : (m.wrs a d).length = m.length := by
  induction d generalizing m a with
  | nil => simp [wrs]
  | cons v vs ih => simp [wrs, ih]

@[simp] theorem length_zeros (n : Nat) : (zeros n).length = n := by simp [zeros]

theorem rd_zeros (n a : Nat) : (zeros n).rd a = 0 := by
  unfold rd zeros
  by_cases h : a < n
  · simp [List.getD, h]
  · simp [List.getD, h]

end Sx.Mem
