import Sx.Lemmas.Rnd
import Sx.Model.Driver
/-
  The float operations of the driver in terms of `rnd`: constants, finiteness and relative error of
  a binary32/binary64 operation on numbers of ordinary magnitude, and truncation of a rounded
  quotient (`floor (rnd x) ≥ floor x`).
-/
namespace Sx
open Sx.Model

theorem osc_value : F.ofBits32 Gen.SX127x_OSCILLATOR_FREQUENCY_bits = .fin 32000000 := by
  unfold F.ofBits32
  have : (Gen.SX127x_OSCILLATOR_FREQUENCY_bits : UInt32).toNat = 1274291200 := by decide
  simp only [this]
  norm_num

theorem fstep_value : F.ofBits32 Gen.SX127x_FSTEP_bits = .fin (32000000 / 524288) := by
  unfold F.ofBits32
  have : (Gen.SX127x_FSTEP_bits : UInt32).toNat = 1114907648 := by decide
  simp only [this]
  norm_num

/-- rounding of a positive number that stays below 2^(emax+1) is a finite value -/
theorem round_fin (f : Fmt) (q : Rat) (hb : rnd f.p f.emin q < (2 : Rat) ^ (f.emax + 1)) (hpos : 0 ≤ rnd f.p f.emin q) :
    F.round f q = .fin (rnd f.p f.emin q) := by
  unfold F.round
  simp only
  rw [if_neg (not_lt.mpr hpos), if_neg (not_le.mpr hb)]

theorem normal_of_one_le (emin : Int) (hemin : emin ≤ 0) (q : Rat) (h : 1 ≤ q) : emin ≤ ilog2 q := by
  have hq : 0 < q := by linarith
  have := (ilog2_spec q hq).2
  by_contra hc
  have hlt : ilog2 q + 1 ≤ 0 := by omega
  have h2 : (2 : Rat) ^ (ilog2 q + 1) ≤ (2 : Rat) ^ (0 : Int) := zpow_le_zpow_right₀ (by norm_num) hlt
  rw [zpow_zero] at h2
  linarith

/-- binary32 rounding of a number in [1, 2^100]: finite, within relative 2^-24 -/
theorem round32 (q : Rat) (h1 : 1 ≤ q) (h2 : q ≤ (2 : Rat) ^ (100 : Int)) :
    F.round b32 q = .fin (rnd 24 (-126) q) ∧ |rnd 24 (-126) q - q| ≤ q * (2 : Rat) ^ (-(24 : Int)) := by
  have hq : 0 < q := by linarith
  have hn := normal_of_one_le (-126) (by norm_num) q h1
  have herr := rnd_rel 24 (-126) q hq hn
  have hu : (2 : Rat) ^ (-((24 : Nat) : Int)) = 1 / 16777216 := by norm_num
  rw [hu] at herr
  have habs := abs_le.mp herr
  refine ⟨?_, by norm_num; linarith [habs.1, habs.2]⟩
  have hpos : 0 ≤ rnd 24 (-126) q := by linarith [habs.1]
  have hlt : rnd 24 (-126) q < (2 : Rat) ^ ((127 : Int) + 1) := by
    have : (2 : Rat) ^ (100 : Int) * 2 ≤ (2 : Rat) ^ ((127 : Int) + 1) := by norm_num
    have : rnd 24 (-126) q ≤ q + q * (1 / 16777216) := by linarith [habs.2]
    have : q + q * (1 / 16777216) ≤ q * 2 := by linarith
    linarith
  exact round_fin b32 q hlt hpos

theorem shift19 (f : UInt64) (h2 : f.toNat ≤ 1020000000) : (f <<< 19).toNat = f.toNat * 524288 := by
  rw [UInt64.toNat_shiftLeft]
  have : (19 : UInt64).toNat % 64 = 19 := by decide
  rw [this, Nat.shiftLeft_eq]
  apply Nat.mod_eq_of_lt
  norm_num
  omega

theorem ofNat32_exact (n : Nat) (h0 : 0 < n) (h : n < 2 ^ 24) : F.ofNat b32 n = .fin (n : Rat) := by
  unfold F.ofNat
  have hq1 : (1 : Rat) ≤ (n : Rat) := by exact_mod_cast h0
  have hq2 : (n : Rat) ≤ (2 : Rat) ^ (100 : Int) := by
    have : (n : Rat) < 16777216 := by exact_mod_cast h
    have : (16777216 : Rat) ≤ (2 : Rat) ^ (100 : Int) := by norm_num
    linarith
  rw [(round32 _ hq1 hq2).1, rnd_nat_exact 24 (by norm_num) (-126) (by norm_num) n h0 h]

/-- truncation of a rounded positive quotient: `floor (rnd x)` is at least `floor x`, and the
    rounding is within relative 2^-24 -/
theorem floor_rnd32 (bits : Nat) (x : Rat) (h1 : 1 ≤ x) (h2 : x < 16777216) (hb : x * 2 ≤ ((2 ^ bits : Nat) : Rat)) :
    ∃ v : Nat, F.toUInt bits (F.round b32 x) = some v ∧ (Rat.floor x).toNat ≤ v ∧ (v : Rat) ≤ x + x * (1 / 16777216) := by
  have hx2 : x ≤ (2 : Rat) ^ (100 : Int) := by
    have : (16777216 : Rat) ≤ (2 : Rat) ^ (100 : Int) := by norm_num
    linarith
  obtain ⟨r1, e1⟩ := round32 x h1 hx2
  rw [r1]
  set Q := rnd 24 (-126) x with hQ
  have hu : (2 : Rat) ^ (-(24 : Int)) = 1 / 16777216 := by norm_num
  rw [hu] at e1
  have a1 := abs_le.mp e1
  have hxpos : 0 < x := by linarith
  have hfx0 : 0 ≤ x.floor := by rw [rfloor_eq]; exact Int.floor_nonneg.mpr (le_of_lt hxpos)
  have hfx1 : 1 ≤ x.floor := by rw [rfloor_eq]; exact Int.le_floor.mpr (by exact_mod_cast h1)
  set n := x.floor.toNat with hn
  have hnc : (n : Int) = x.floor := Int.toNat_of_nonneg hfx0
  have hn0 : 0 < n := by omega
  have hnx : (n : Rat) ≤ x := by
    have := Rat.floor_le x
    have e : (n : Rat) = (x.floor : Rat) := by exact_mod_cast hnc
    rw [e]; exact this
  have hnp : n < 2 ^ 24 := by
    have : (n : Rat) < 16777216 := by linarith
    exact_mod_cast this
  have hsq := rnd_ge_nat 24 (by norm_num) (-126) x hxpos (normal_of_one_le (-126) (by norm_num) x h1) n hn0 hnp hnx
  have hQpos : 0 < Q := by
    have : (0 : Rat) < (n : Rat) := by exact_mod_cast hn0
    linarith
  have hfl1 := Rat.floor_le Q
  have hfl0 : 0 ≤ Q.floor := by rw [rfloor_eq]; exact Int.floor_nonneg.mpr (le_of_lt hQpos)
  have hflhi : Q.floor < (2 : Int) ^ bits := by
    have : (Q.floor : Rat) < ((2 ^ bits : Nat) : Rat) := by nlinarith [a1.2]
    have : Q.floor < ((2 ^ bits : Nat) : Int) := by exact_mod_cast this
    push_cast at this; exact this
  refine ⟨Q.floor.toNat, ?_, ?_, ?_⟩
  · unfold F.toUInt F.truncQ
    simp only
    rw [if_neg (not_lt.mpr (le_of_lt hQpos)), if_pos ⟨hfl0, hflhi⟩]
  · have : x.floor ≤ Q.floor := by
      rw [rfloor_eq Q]; apply Int.le_floor.mpr
      have e : ((x.floor : Int) : Rat) = (n : Rat) := by exact_mod_cast hnc.symm
      rw [e]; exact hsq
    omega
  · have hc : ((Q.floor.toNat : Nat) : Rat) = (Q.floor : Rat) := by
      have : (Q.floor.toNat : Int) = Q.floor := Int.toNat_of_nonneg hfl0
      exact_mod_cast this
    rw [hc]; linarith [a1.2]

/-! ### binary64 -/

theorem round64 (q : Rat) (h1 : 1 ≤ q) (h2 : q ≤ (2 : Rat) ^ (100 : Int)) :
    F.round b64 q = .fin (rnd 53 (-1022) q) ∧ |rnd 53 (-1022) q - q| ≤ q * (1 / 9007199254740992) := by
  have hq : 0 < q := by linarith
  have hn := normal_of_one_le (-1022) (by norm_num) q h1
  have herr := rnd_rel 53 (-1022) q hq hn
  have hu : (2 : Rat) ^ (-((53 : Nat) : Int)) = 1 / 9007199254740992 := by norm_num
  rw [hu] at herr
  have habs := abs_le.mp herr
  refine ⟨?_, herr⟩
  have hpos : 0 ≤ rnd 53 (-1022) q := by linarith [habs.1]
  have hlt : rnd 53 (-1022) q < (2 : Rat) ^ ((1023 : Int) + 1) := by
    have : (2 : Rat) ^ (100 : Int) * 2 ≤ (2 : Rat) ^ ((1023 : Int) + 1) := by
      have : (2 : Rat) ^ (100 : Int) * 2 = (2 : Rat) ^ (101 : Int) := by norm_num
      rw [this]; exact zpow_le_zpow_right₀ (by norm_num) (by norm_num)
    have : rnd 53 (-1022) q ≤ q + q * (1 / 9007199254740992) := by linarith [habs.2]
    have : q + q * (1 / 9007199254740992) ≤ q * 2 := by linarith
    linarith
  exact round_fin b64 q hlt hpos

theorem floor_rnd64 (bits : Nat) (x : Rat) (h1 : 1 ≤ x) (h2 : x < 9007199254740992) (hb : x * 2 ≤ ((2 ^ bits : Nat) : Rat)) :
    ∃ v : Nat, F.toUInt bits (F.round b64 x) = some v ∧ (Rat.floor x).toNat ≤ v ∧ (v : Rat) ≤ x + x * (1 / 9007199254740992) := by
  have hx2 : x ≤ (2 : Rat) ^ (100 : Int) := by
    have : (9007199254740992 : Rat) ≤ (2 : Rat) ^ (100 : Int) := by norm_num
    linarith
  obtain ⟨r1, e1⟩ := round64 x h1 hx2
  rw [r1]
  set Q := rnd 53 (-1022) x with hQ
  have a1 := abs_le.mp e1
  have hxpos : 0 < x := by linarith
  have hfx0 : 0 ≤ x.floor := by rw [rfloor_eq]; exact Int.floor_nonneg.mpr (le_of_lt hxpos)
  have hfx1 : 1 ≤ x.floor := by rw [rfloor_eq]; exact Int.le_floor.mpr (by exact_mod_cast h1)
  set n := x.floor.toNat with hn
  have hnc : (n : Int) = x.floor := Int.toNat_of_nonneg hfx0
  have hn0 : 0 < n := by omega
  have hnx : (n : Rat) ≤ x := by
    have := Rat.floor_le x
    have e : (n : Rat) = (x.floor : Rat) := by exact_mod_cast hnc
    rw [e]; exact this
  have hnp : n < 2 ^ 53 := by
    have : (n : Rat) < 9007199254740992 := by linarith
    exact_mod_cast this
  have hsq := rnd_ge_nat 53 (by norm_num) (-1022) x hxpos (normal_of_one_le (-1022) (by norm_num) x h1) n hn0 hnp hnx
  have hQpos : 0 < Q := by
    have : (0 : Rat) < (n : Rat) := by exact_mod_cast hn0
    linarith
  have hfl1 := Rat.floor_le Q
  have hfl0 : 0 ≤ Q.floor := by rw [rfloor_eq]; exact Int.floor_nonneg.mpr (le_of_lt hQpos)
  have hflhi : Q.floor < (2 : Int) ^ bits := by
    have : (Q.floor : Rat) < ((2 ^ bits : Nat) : Rat) := by nlinarith [a1.2]
    have : Q.floor < ((2 ^ bits : Nat) : Int) := by exact_mod_cast this
    push_cast at this; exact this
  refine ⟨Q.floor.toNat, ?_, ?_, ?_⟩
  · unfold F.toUInt F.truncQ
    simp only
    rw [if_neg (not_lt.mpr (le_of_lt hQpos)), if_pos ⟨hfl0, hflhi⟩]
  · have : x.floor ≤ Q.floor := by
      rw [rfloor_eq Q]; apply Int.le_floor.mpr
      have e : ((x.floor : Int) : Rat) = (n : Rat) := by exact_mod_cast hnc.symm
      rw [e]; exact hsq
    omega
  · have hc : ((Q.floor.toNat : Nat) : Rat) = (Q.floor : Rat) := by
      have : (Q.floor.toNat : Int) = Q.floor := Int.toNat_of_nonneg hfl0
      exact_mod_cast this
    rw [hc]; linarith [a1.2]

theorem round64_nat (n : Nat) (h0 : 0 < n) (h : n < 2 ^ 53) : F.round b64 (n : Rat) = .fin (n : Rat) := by
  have hq1 : (1 : Rat) ≤ (n : Rat) := by exact_mod_cast h0
  have hq2 : (n : Rat) ≤ (2 : Rat) ^ (100 : Int) := by
    have : (n : Rat) < 9007199254740992 := by exact_mod_cast h
    have : (9007199254740992 : Rat) ≤ (2 : Rat) ^ (100 : Int) := by norm_num
    linarith
  rw [(round64 _ hq1 hq2).1, rnd_nat_exact 53 (by norm_num) (-1022) (by norm_num) n h0 h]


/-- a positive dyadic `m * 2^k` with `m < 2^p` is represented exactly (normal range) -/
theorem rnd_dyadic_exact (p : Nat) (hp : 1 ≤ p) (emin : Int) (m : Nat) (hm0 : 0 < m) (hm : m < 2 ^ p) (k : Int)
    (hn : emin ≤ ilog2 ((m : Rat) * (2 : Rat) ^ k)) :
    rnd p emin ((m : Rat) * (2 : Rat) ^ k) = (m : Rat) * (2 : Rat) ^ k := by
  set q := (m : Rat) * (2 : Rat) ^ k with hq
  have hqpos : 0 < q := by
    have : (0 : Rat) < (m : Rat) := by exact_mod_cast hm0
    have := two_zpow_pos k
    positivity
  rw [rnd_pos_eq p emin q hqpos, ulpExp_normal p emin q hn]
  set L := ilog2 q
  set e := L - ((p : Int) - 1) with he_def
  obtain ⟨s1, s2⟩ := ilog2_spec q hqpos
  -- 2^L ≤ q < 2^p * 2^k, hence L < p + k and e ≤ k
  have hlt : (2 : Rat) ^ L < (2 : Rat) ^ ((p : Int) + k) := by
    have h1 : q < (2 : Rat) ^ (p : Int) * (2 : Rat) ^ k := by
      rw [hq, zpow_natCast]
      have : (m : Rat) < (2 : Rat) ^ p := by exact_mod_cast hm
      exact mul_lt_mul_of_pos_right this (two_zpow_pos k)
    rw [zpow_add₀ (by norm_num : (2 : Rat) ≠ 0)]
    linarith
  have hLk : L < (p : Int) + k := by
    by_contra hc
    have := zpow_le_zpow_right₀ (by norm_num : (1 : Rat) ≤ 2) (not_lt.mp hc)
    linarith
  have hek : 0 ≤ k - e := by rw [he_def]; omega
  obtain ⟨j, hj⟩ := Int.eq_ofNat_of_zero_le hek
  have hdiv : q / (2 : Rat) ^ e = (((m * 2 ^ j : Nat) : Int) : Rat) := by
    rw [hq]
    have : (2 : Rat) ^ k = (2 : Rat) ^ e * (2 : Rat) ^ (j : Int) := by
      rw [← zpow_add₀ (by norm_num : (2 : Rat) ≠ 0)]; congr 1; omega
    rw [this, zpow_natCast]
    have he := two_zpow_pos e
    push_cast
    field_simp
  rw [hdiv, rhe_int]
  rw [hq]
  have : (2 : Rat) ^ k = (2 : Rat) ^ e * (2 : Rat) ^ (j : Int) := by
    rw [← zpow_add₀ (by norm_num : (2 : Rat) ≠ 0)]; congr 1; omega
  rw [this, zpow_natCast]
  push_cast
  ring

/-- every binary32 value of magnitude at least 1 is a binary64 value: `(double) x` is exact -/
theorem cvt64_of_bits32 (u : UInt32) (q : Rat) (h : F.ofBits32 u = .fin q) (hq : 1 ≤ q) : F.round b64 q = .fin q := by
  unfold F.ofBits32 at h
  simp only at h
  by_cases he255 : u.toNat / 2 ^ 23 % 256 = 255
  · rw [if_pos he255] at h
    split at h <;> cases h
  rw [if_neg he255] at h
  have hq' := F.fin.inj h
  set e := u.toNat / 2 ^ 23 % 256 with he
  set m := u.toNat % 2 ^ 23 with hm
  have hm_lt : m < 2 ^ 23 := Nat.mod_lt _ (by norm_num)
  have he_lt : e < 256 := Nat.mod_lt _ (by norm_num)
  -- the sign bit is clear and the exponent field is not zero
  by_cases hs : u.toNat / 2 ^ 31 = 1
  · exfalso
    rw [if_pos hs] at hq'
    have : (0 : Rat) ≤ (if e = 0 then (((m : Int)) : Rat) * (2 : Rat) ^ (-149 : Int)
        else (((2 ^ 23 + m : Nat) : Int) : Rat) * (2 : Rat) ^ ((e : Int) - 150)) := by
      split <;> positivity
    linarith
  rw [if_neg hs] at hq'
  by_cases he0 : e = 0
  · exfalso
    rw [if_pos he0] at hq'
    have h1 : (((m : Int)) : Rat) < 8388608 := by exact_mod_cast hm_lt
    have h2 : (2 : Rat) ^ (-149 : Int) ≤ 1 / 8388608 := by
      have : (2 : Rat) ^ (-149 : Int) ≤ (2 : Rat) ^ (-23 : Int) := zpow_le_zpow_right₀ (by norm_num) (by norm_num)
      have e2 : (2 : Rat) ^ (-23 : Int) = 1 / 8388608 := by norm_num
      linarith
    have h3 : (0 : Rat) ≤ (((m : Int)) : Rat) := by positivity
    have h5 : (((m : Int)) : Rat) * (2 : Rat) ^ (-149 : Int) ≤ (((m : Int)) : Rat) * (1 / 8388608) :=
      mul_le_mul_of_nonneg_left h2 h3
    have h6 : (((m : Int)) : Rat) * (1 / 8388608) < 1 := by linarith
    have h7 : q < 1 := by rw [← hq']; exact lt_of_le_of_lt h5 h6
    linarith
  rw [if_neg he0] at hq'
  have hM : 2 ^ 23 + m < 2 ^ 53 := by
    have : (2 : Nat) ^ 23 + 2 ^ 23 ≤ 2 ^ 53 := by norm_num
    omega
  have hqeq : q = ((2 ^ 23 + m : Nat) : Rat) * (2 : Rat) ^ ((e : Int) - 150) := by
    rw [← hq']; push_cast; ring
  have hexact := rnd_dyadic_exact 53 (by norm_num) (-1022) (2 ^ 23 + m) (by positivity) hM ((e : Int) - 150)
    (by rw [← hqeq]; exact normal_of_one_le (-1022) (by norm_num) q hq)
  rw [← hqeq] at hexact
  have hfin := round_fin b64 q (by
    show rnd 53 (-1022) q < (2 : Rat) ^ ((1023 : Int) + 1)
    rw [hexact, hqeq]
    have h1 : ((2 ^ 23 + m : Nat) : Rat) < (2 : Rat) ^ (24 : Int) := by
      have h0 : 2 ^ 23 + m < 16777216 := by omega
      have h0' : ((2 ^ 23 + m : Nat) : Rat) < 16777216 := by exact_mod_cast h0
      have e24 : (2 : Rat) ^ (24 : Int) = 16777216 := by norm_num
      rw [e24]; exact h0'
    have h2 : (2 : Rat) ^ ((e : Int) - 150) ≤ (2 : Rat) ^ (106 : Int) := zpow_le_zpow_right₀ (by norm_num) (by omega)
    have h3 : (2 : Rat) ^ (24 : Int) * (2 : Rat) ^ (106 : Int) ≤ (2 : Rat) ^ ((1023 : Int) + 1) := by
      rw [← zpow_add₀ (by norm_num : (2 : Rat) ≠ 0)]
      exact zpow_le_zpow_right₀ (by norm_num) (by norm_num)
    have h4 := two_zpow_pos ((e : Int) - 150)
    have h5 : (0 : Rat) ≤ ((2 ^ 23 + m : Nat) : Rat) := by positivity
    nlinarith) (by
    show 0 ≤ rnd 53 (-1022) q
    rw [hexact]; linarith)
  rw [hfin]
  show F.fin (rnd 53 (-1022) q) = F.fin q
  rw [hexact]

end Sx
