import Sx.Lemmas.ContractAll
/-
  Refinement between the two interpreters of the same program: with the register cache
  (`cached = true`) and without.  Simulation relation `RW`: same chip, same callbacks, same
  writes on the bus in the same order, never more transfers with the cache; the cached world
  satisfies the coherence invariant.
-/
namespace Sx
open Mem Chip Cache

def writesOf (bus : List BusEv) : List BusEv := bus.filter BusEv.isWrite

/-- neither environment events inside the operation nor failing transfers: their positions are
    keyed by transfer index, which is not comparable between the two builds -/
def World.Plain (w : World) : Prop := w.sched = [] ∧ w.faults = []

structure RW (wc wu : World) : Prop where
  chip : wc.chip = wu.chip
  inv : Inv wc
  cbs : wc.cbs = wu.cbs
  writes : writesOf wc.bus = writesOf wu.bus
  count : wc.bus.length ≤ wu.bus.length
  pc : wc.Plain
  pu : wu.Plain

theorem pre_plain {w : World} (h : w.Plain) : w.pre = ({ w with xfer := w.xfer + 1 }, none) := by
  unfold World.pre
  simp [h.1, h.2]

/-- a burst read at addresses other than the FIFO returns `peek` of each and changes nothing -/
theorem readN_pure (c : Chip) (reg n : Nat) (h1 : 1 ≤ reg) (hn : reg + n ≤ 128) :
    c.readN reg n = ((List.range n).map (fun i => c.peek (reg + i)), c) := by
  induction n generalizing reg with
  | zero => rfl
  | succ n ih =>
    have hne : reg ≠ 0 := by omega
    have hmod : reg % 128 = reg := Nat.mod_eq_of_lt (by omega)
    have hr : c.read reg = (c.peek reg, c) := by
      rw [read_nonzero reg (by rw [hmod]; exact hne), hmod]
    simp only [readN, hr, if_neg hne]
    rw [ih (reg + 1) (by omega) (by omega)]
    simp only [List.range_succ_eq_map, List.map_cons, List.map_map, Nat.add_zero]
    congr 1
    congr 1
    apply List.map_congr_left
    intro i _
    simp only [Function.comp]
    congr 1
    omega

theorem prefixLen_full {k : Cache} {reg n : Nat} (h : k.prefixLen reg n = n) :
    ∀ i, i < n → k.isCached (reg + i) = true := by
  induction n generalizing reg with
  | zero => intro i hi; omega
  | succ n ih =>
    intro i hi
    unfold Cache.prefixLen at h
    split at h
    · rename_i hc
      have h' : k.prefixLen (reg + 1) n = n := by omega
      cases i with
      | zero => simpa using hc
      | succ j =>
        have := ih h' j (by omega)
        rw [show reg + (j + 1) = reg + 1 + j by omega]
        exact this
    · omega

theorem prefixLen_le (k : Cache) (reg n : Nat) : k.prefixLen reg n ≤ n := by
  induction n generalizing reg with
  | zero => simp [Cache.prefixLen]
  | succ n ih =>
    unfold Cache.prefixLen
    split
    · have := ih (reg + 1); omega
    · omega


theorem busRead_plain {w : World} (h : w.Plain) (reg n : Nat) :
    w.busRead reg n = (.ok (be32 (w.chip.readN reg n).1),
      { w with xfer := w.xfer + 1, chip := (w.chip.readN reg n).2,
               bus := .r reg n (.ok (be32 (w.chip.readN reg n).1)) :: w.bus }) := by
  unfold World.busRead
  rw [pre_plain h]

theorem busReadBuf_plain {w : World} (h : w.Plain) (reg n : Nat) :
    w.busReadBuf reg n = (.ok (w.chip.readN reg n).1,
      { w with xfer := w.xfer + 1, chip := (w.chip.readN reg n).2,
               bus := .rb reg n (.ok (w.chip.readN reg n).1) :: w.bus }) := by
  unfold World.busReadBuf
  rw [pre_plain h]

theorem busWrite_plain {w : World} (h : w.Plain) (reg : Nat) (d : List UInt8) :
    w.busWrite reg d = (.ok (),
      { w with xfer := w.xfer + 1, chip := w.chip.writeN reg d, bus := .w reg d (.ok ()) :: w.bus }) := by
  unfold World.busWrite
  rw [pre_plain h]

theorem busWriteBuf_plain {w : World} (h : w.Plain) (reg : Nat) (d : List UInt8) :
    w.busWriteBuf reg d = (.ok (),
      { w with xfer := w.xfer + 1, chip := w.chip.writeN reg d, bus := .wb reg d (.ok ()) :: w.bus }) := by
  unfold World.busWriteBuf
  rw [pre_plain h]

/-- both sides perform the same read transfer -/
theorem rw_busRead {wc wu : World} (r : RW wc wu) (reg n : Nat) :
    (wc.busRead reg n).1 = (wu.busRead reg n).1 ∧ RW (wc.busRead reg n).2 (wu.busRead reg n).2 := by
  have ic := busRead_inv r.inv reg n
  rw [busRead_plain r.pc, busRead_plain r.pu] at *
  rw [r.chip]
  refine ⟨rfl, ?_⟩
  refine ⟨by simp only [r.chip], by simpa [r.chip] using ic, r.cbs, ?_, ?_, r.pc, r.pu⟩
  · simp only [writesOf, List.filter_cons, BusEv.isWrite]
    exact r.writes
  · simp only [List.length_cons]; have := r.count; omega

theorem rw_busReadBuf {wc wu : World} (r : RW wc wu) (reg n : Nat) :
    (wc.busReadBuf reg n).1 = (wu.busReadBuf reg n).1 ∧ RW (wc.busReadBuf reg n).2 (wu.busReadBuf reg n).2 := by
  have ic := busReadBuf_inv r.inv reg n
  rw [busReadBuf_plain r.pc, busReadBuf_plain r.pu] at *
  rw [r.chip]
  refine ⟨rfl, ?_⟩
  refine ⟨by simp only [r.chip], by simpa [r.chip] using ic, r.cbs, ?_, ?_, r.pc, r.pu⟩
  · simp only [writesOf, List.filter_cons, BusEv.isWrite]
    exact r.writes
  · simp only [List.length_cons]; have := r.count; omega


/-- the two interpreters answer a request alike; under the contract neither reaches undefined
    behaviour in the shadow layer -/
def StepRel {α : Type} (sc su : Step α) : Prop :=
  match sc, su with
  | .ok r w, .ok r' w' => r = r' ∧ RW w w'
  | _, _ => False

theorem rel_busStep {wc wu : World} (r : RW wc wu) (reg n : Nat) :
    StepRel (Shadow.busStep wc reg n) (Shadow.busStep wu reg n) := by
  unfold Shadow.busStep
  have := rw_busRead r reg n
  generalize wc.busRead reg n = a at this
  generalize wu.busRead reg n = b at this
  obtain ⟨ra, wa⟩ := a
  obtain ⟨rb, wb⟩ := b
  exact this

theorem rel_busStep1 {wc wu : World} (r : RW wc wu) (reg : Nat) :
    StepRel (Shadow.busStep1 wc reg) (Shadow.busStep1 wu reg) := by
  unfold Shadow.busStep1
  have := rw_busRead r reg 1
  generalize wc.busRead reg 1 = a at this
  generalize wu.busRead reg 1 = b at this
  obtain ⟨ra, wa⟩ := a
  obtain ⟨rb, wb⟩ := b
  have h1 : ra = rb := this.1
  exact ⟨by rw [h1], this.2⟩

/-- a cache hit returns what the transfer of the uncached build returns, and that transfer
    leaves the chip as it is -/
theorem hit_values {wc wu : World} (r : RW wc wu) (reg n : Nat) (h1 : 1 ≤ reg) (hn : reg + n ≤ 0x71)
    (hc : ∀ i, i < n → wc.cache.isCached (reg + i) = true) :
    wu.chip.readN reg n = (wc.cache.vals.rds reg n, wu.chip) := by
  rw [readN_pure wu.chip reg n h1 (by omega)]
  congr 1
  unfold Mem.rds
  apply List.map_congr_left
  intro i hi
  have hi' : i < n := by simpa using hi
  have haN : reg + i < Cache.N := by rw [N_eq]; omega
  rw [r.inv.coh (reg + i) haN (hc i hi'), r.chip, peek_eq_cell (not_vol_of_cached r.inv.cache haN (hc i hi'))]

theorem rel_sread {wc wu : World} (r : RW wc wu) (reg n : Nat) (hp : ContractReq (.sread reg n)) :
    StepRel (Shadow.sread true wc reg n) (Shadow.sread false wu reg n) := by
  obtain ⟨hn1, hn4, hr1, hrn⟩ := hp
  have hsize : wc.cache.size = Cache.N := r.inv.cache.hs
  have hu : Shadow.sread false wu reg n = Shadow.busStep wu reg n := by simp [Shadow.sread]
  rw [hu]
  unfold Shadow.sread
  simp only [Bool.not_true, Bool.false_eq_true, ↓reduceIte]
  rw [if_neg (by rw [hsize, N_eq]; omega)]
  split
  · exact rel_busStep r reg n
  · have hk := prefixLen_le wc.cache reg n
    have hpe : Shadow.probeEnd (wc.cache.prefixLen reg n) n ≤ n := by unfold Shadow.probeEnd; split <;> omega
    rw [if_neg (by rw [hsize, N_eq]; omega)]
    split
    · -- hit
      rename_i hfull
      have hv := hit_values r reg n hr1 hrn (prefixLen_full hfull)
      unfold Shadow.busStep
      rw [busRead_plain r.pu, hv]
      refine ⟨rfl, r.chip, r.inv, r.cbs, ?_, ?_, r.pc, r.pu⟩
      · simp only [writesOf, List.filter_cons, BusEv.isWrite]
        exact r.writes
      · simp only [List.length_cons]; have := r.count; omega
    · -- miss: the same transfer on both sides, then the fill on the cached side
      unfold Shadow.sreadMiss Shadow.busStep
      have hb := rw_busRead r reg n
      have hbr := busRead_plain r.pc reg n
      generalize hgc : wc.busRead reg n = a at hb
      generalize wu.busRead reg n = b at hb
      obtain ⟨ra, wa⟩ := a
      obtain ⟨rb, wb⟩ := b
      obtain ⟨hres, hrw⟩ := hb
      simp only at hres hrw
      subst hres
      cases ra with
      | error c => exact ⟨rfl, hrw⟩
      | ok v =>
        simp only
        unfold Shadow.sreadFill
        have hsz : wa.cache.size = Cache.N := hrw.inv.cache.hs
        rw [if_neg (by rw [hsz, N_eq]; omega)]
        refine ⟨rfl, ?_⟩
        have hfi := sreadFill_inv r.inv reg n hn4 v wa hgc hr1 (.ok v)
          { wa with cache := wa.cache.store reg ((List.range n).map (byteOf v n)) }
          (by unfold Shadow.sreadFill; rw [if_neg (by rw [hsz, N_eq]; omega)])
        exact ⟨hrw.chip, hfi, hrw.cbs, hrw.writes, hrw.count, hrw.pc, hrw.pu⟩


theorem rel_rread {wc wu : World} (r : RW wc wu) (reg : Nat) (hp : ContractReq (.rread reg)) :
    StepRel (Shadow.rread true wc reg) (Shadow.rread false wu reg) := by
  have hp' : reg ≤ 0x70 := hp
  have hsize : wc.cache.size = Cache.N := r.inv.cache.hs
  have hu : Shadow.rread false wu reg = Shadow.busStep1 wu reg := by simp [Shadow.rread]
  rw [hu]
  unfold Shadow.rread
  simp only [Bool.not_true, Bool.false_eq_true, ↓reduceIte]
  rw [if_neg (by rw [hsize, N_eq]; omega)]
  split
  · exact rel_busStep1 r reg
  · rename_i hig
    have hr1 : 1 ≤ reg := by
      cases reg with
      | zero =>
        exfalso
        have : wc.cache.isIgnore 0 = true := r.inv.cache.vol 0 (by decide) (by decide)
        exact hig this
      | succ m => omega
    split
    · rename_i hcached
      have hv := hit_values r reg 1 hr1 (by omega) (by
        intro i hi
        have : i = 0 := by omega
        subst this
        simpa using hcached)
      unfold Shadow.busStep1
      rw [busRead_plain r.pu, hv]
      refine ⟨?_, r.chip, r.inv, r.cbs, ?_, ?_, r.pc, r.pu⟩
      · simp only [Mem.rds, List.range_one, List.map_cons, List.map_nil, Nat.add_zero, Except.map]
        rw [be32_single]
      · simp only [writesOf, List.filter_cons, BusEv.isWrite]
        exact r.writes
      · simp only [List.length_cons]; have := r.count; omega
    · unfold Shadow.rreadMiss Shadow.busStep1
      have hb := rw_busRead r reg 1
      have hmiss := rread_inv r.inv reg
      generalize hgc : wc.busRead reg 1 = a at hb
      generalize wu.busRead reg 1 = b at hb
      obtain ⟨ra, wa⟩ := a
      obtain ⟨rb, wb⟩ := b
      obtain ⟨hres, hrw⟩ := hb
      simp only at hres hrw
      subst hres
      cases ra with
      | error c => exact ⟨rfl, hrw⟩
      | ok v =>
        simp only [Except.map]
        refine ⟨rfl, ?_⟩
        have hfi := hmiss (.ok v.toUInt8)
          { wa with cache := { vals := wa.cache.vals.wr reg v.toUInt8, sync := wa.cache.sync.wr reg (UInt8.ofNat Gen.SHADOW_CACHED) } }
          (by
            unfold Shadow.rread
            simp only [Bool.not_true, Bool.false_eq_true, ↓reduceIte]
            rw [if_neg (by rw [hsize, N_eq]; omega), if_neg hig, if_neg (by assumption)]
            unfold Shadow.rreadMiss
            rw [hgc])
        exact ⟨hrw.chip, hfi, hrw.cbs, hrw.writes, hrw.count, hrw.pc, hrw.pu⟩

theorem rel_swrite {wc wu : World} (r : RW wc wu) (reg : Nat) (d : List UInt8) (hp : ContractReq (.swrite reg d)) :
    StepRel (Shadow.swrite true wc reg d) (Shadow.swrite false wu reg d) := by
  obtain ⟨hl1, hl4, hlen, hreq⟩ := hp
  have hinv := swrite_inv r.inv reg d hreq
  unfold Shadow.swrite at hinv ⊢
  rw [busWrite_plain r.pc] at hinv ⊢
  rw [busWrite_plain r.pu]
  simp only [Bool.not_true, Bool.false_eq_true, ↓reduceIte, Bool.not_false] at hinv ⊢
  unfold Shadow.swriteStore at hinv ⊢
  dsimp only at hinv ⊢
  have hsz : (if reg = Gen.REGOPMODE then wc.cache.dropPage else wc.cache).size = Cache.N := by
    split
    · exact (dropPage_wf r.inv.cache).hs
    · exact r.inv.cache.hs
  rw [if_neg (by rw [hsz, N_eq]; omega)] at hinv ⊢
  refine ⟨rfl, ?_⟩
  refine ⟨by simp only [r.chip], hinv _ _ rfl, r.cbs, ?_, ?_, r.pc, r.pu⟩
  · simp only [writesOf, List.filter_cons, BusEv.isWrite, ↓reduceIte]
    have := r.writes
    unfold writesOf at this
    rw [this]
  · simp only [List.length_cons]; have := r.count; omega

theorem rel_bwrite {wc wu : World} (r : RW wc wu) (reg : Nat) (d : List UInt8) (hp : ContractReq (.bwrite reg d)) :
    StepRel (Shadow.bwrite true wc reg d) (Shadow.bwrite false wu reg d) := by
  have hreq : reg ≠ 1 := (ContractReq.coh (r := .bwrite reg d) hp)
  obtain ⟨_, hor⟩ := hp
  have hinv := bwrite_inv r.inv reg d hreq
  unfold Shadow.bwrite at hinv ⊢
  rw [busWriteBuf_plain r.pc] at hinv ⊢
  rw [busWriteBuf_plain r.pu]
  simp only [Bool.not_true, Bool.false_eq_true, ↓reduceIte, Bool.not_false] at hinv ⊢
  unfold Shadow.bwriteStore at hinv ⊢
  have hw : writesOf (BusEv.wb reg d (.ok ()) :: wc.bus) = writesOf (BusEv.wb reg d (.ok ()) :: wu.bus) := by
    simp only [writesOf, List.filter_cons, BusEv.isWrite, ↓reduceIte]
    have := r.writes
    unfold writesOf at this
    rw [this]
  by_cases h0 : reg = Gen.REGFIFO
  · rw [if_pos h0] at hinv ⊢
    refine ⟨rfl, by simp only [r.chip], hinv _ _ rfl, r.cbs, hw, ?_, r.pc, r.pu⟩
    simp only [List.length_cons]; have := r.count; omega
  · rw [if_neg h0] at hinv ⊢
    have hsz : wc.cache.size = Cache.N := r.inv.cache.hs
    have hlen : reg + d.length ≤ 0x71 := by
      rcases hor with h | h
      · exact absurd h h0
      · exact h.2
    rw [if_neg (by rw [hsz, N_eq]; omega)] at hinv ⊢
    refine ⟨rfl, by simp only [r.chip], hinv _ _ rfl, r.cbs, hw, ?_, r.pc, r.pu⟩
    simp only [List.length_cons]; have := r.count; omega

/-- outcomes of the two interpreters: the same value (or the same undefined behaviour of the
    program itself) in related worlds -/
def OutRel {α : Type} (oc ou : Outcome α) : Prop :=
  match oc, ou with
  | .done a w, .done b w' => a = b ∧ RW w w'
  | .ub u _, .ub u' _ => u = u'
  | _, _ => False

/-- **Simulation.** A program whose requests are within the SPI contract behaves the same under
    both interpreters. -/
theorem execG_sim (onC onU : CbEvent → Handle → World → Outcome Handle)
    (hcb : ∀ e h wc wu, RW wc wu → OutRel (onC e h wc) (onU e h wu))
    (p : Prog α) (hp : p.All ContractReq) (wc wu : World) (r : RW wc wu) :
    OutRel (execG true onC p wc) (execG false onU p wu) := by
  induction p generalizing wc wu with
  | ret a => exact ⟨rfl, r⟩
  | ub u => rfl
  | sread reg n k ih =>
    simp only [execG]
    have := rel_sread r reg n hp.1
    generalize Shadow.sread true wc reg n = a at this
    generalize Shadow.sread false wu reg n = b at this
    cases a <;> cases b <;> simp only [StepRel] at this
    obtain ⟨h1, h2⟩ := this
    subst h1
    exact ih _ (hp.2 _) _ _ h2
  | rread reg k ih =>
    simp only [execG]
    have := rel_rread r reg hp.1
    generalize Shadow.rread true wc reg = a at this
    generalize Shadow.rread false wu reg = b at this
    cases a <;> cases b <;> simp only [StepRel] at this
    obtain ⟨h1, h2⟩ := this
    subst h1
    exact ih _ (hp.2 _) _ _ h2
  | swrite reg d k ih =>
    simp only [execG]
    have := rel_swrite r reg d hp.1
    generalize Shadow.swrite true wc reg d = a at this
    generalize Shadow.swrite false wu reg d = b at this
    cases a <;> cases b <;> simp only [StepRel] at this
    obtain ⟨h1, h2⟩ := this
    subst h1
    exact ih _ (hp.2 _) _ _ h2
  | bwrite reg d k ih =>
    simp only [execG]
    have := rel_bwrite r reg d hp.1
    generalize Shadow.bwrite true wc reg d = a at this
    generalize Shadow.bwrite false wu reg d = b at this
    cases a <;> cases b <;> simp only [StepRel] at this
    obtain ⟨h1, h2⟩ := this
    subst h1
    exact ih _ (hp.2 _) _ _ h2
  | bread reg n k ih =>
    simp only [execG]
    have := rw_busReadBuf r reg n
    generalize wc.busReadBuf reg n = a at this
    generalize wu.busReadBuf reg n = b at this
    obtain ⟨ra, wa⟩ := a
    obtain ⟨rb, wb⟩ := b
    obtain ⟨h1, h2⟩ := this
    simp only at h1 h2
    subst h1
    exact ih _ (hp.2 _) _ _ h2
  | rawbread reg n k ih =>
    simp only [execG]
    have := rw_busReadBuf r reg n
    generalize wc.busReadBuf reg n = a at this
    generalize wu.busReadBuf reg n = b at this
    obtain ⟨ra, wa⟩ := a
    obtain ⟨rb, wb⟩ := b
    obtain ⟨h1, h2⟩ := this
    simp only at h1 h2
    subst h1
    exact ih _ (hp.2 _) _ _ h2
  | callback e h k ih =>
    simp only [execG]
    have := hcb e h wc wu r
    generalize onC e h wc = a at this
    generalize onU e h wu = b at this
    cases a <;> cases b <;> simp only [OutRel] at this
    · obtain ⟨h1, h2⟩ := this
      subst h1
      exact ih _ (hp _) _ _ h2
    · exact this

end Sx
