import Sx.Lemmas.Ghost
import Sx.Lemmas.ShadowCbs
import Sx.Sys
/-
  The callback log of the interpreter follows the callback list of the ghost state: if the
  environment's answers never touch the ghost's callback list and its callback relation appends
  the event, then a refinement (`Covers`) can be strengthened by the equation between the two —
  which turns statements about the ghost's callbacks into statements about what an observation of
  `Sys.step` shows.
-/
namespace Sx

variable {G : Type}

/-- how an environment keeps its callback list (`bad` = states in which it promises nothing) -/
structure CbsEnv (E : GEnv G) where
  cbsOf : G → List CbEvent
  bad : G → Prop
  R_keeps : ∀ g q a g', E.R g q a g' → ¬bad g' → cbsOf g' = cbsOf g
  R_bad : ∀ g q a g', E.R g q a g' → bad g → bad g'
  C_appends : ∀ g e h h' g', E.C g e h h' g' → ¬bad g' → cbsOf g' = cbsOf g ++ [e]
  C_bad : ∀ g e h h' g', E.C g e h h' g' → bad g → bad g'

/-- the ghost's callbacks are `pre` followed by what the world has logged in this operation -/
def CbsTie {E : GEnv G} (K : CbsEnv E) (pre : List CbEvent) (w : World) (g : G) : Prop :=
  K.bad g ∨ K.cbsOf g = pre ++ (w.cbs.map (·.ev)).reverse

theorem CbsTie.step {E : GEnv G} {K : CbsEnv E} {pre : List CbEvent} {w w' : World} {g g' : G} {q : Req} {a : Ans}
    (ht : CbsTie K pre w g) (hr : E.R g q a g') (hw : w'.cbs = w.cbs) : CbsTie K pre w' g' := by
  rcases ht with hb | ht
  · exact Or.inl (K.R_bad g q a g' hr hb)
  · by_cases hb' : K.bad g'
    · exact Or.inl hb'
    · right; rw [K.R_keeps g q a g' hr hb', ht, hw]

theorem covers_cbs (E : GEnv G) (K : CbsEnv E) (cached : Bool) (onCb : CbEvent → Handle → World → Outcome Handle)
    (abs : World → G → Prop) (cov : Covers E cached onCb abs)
    (honcb : ∀ e h w h' w', onCb e h w = .done h' w' → w'.cbs.map (·.ev) = e :: w.cbs.map (·.ev))
    (pre : List CbEvent) : Covers E cached onCb (fun w g => abs w g ∧ CbsTie K pre w g) where
  sread := by
    intro w g reg n ⟨ha, ht⟩
    have := cov.sread w g reg n ha
    cases hs : Shadow.sread cached w reg n with
    | ok r w' => rw [hs] at this; obtain ⟨g1, hr, ha'⟩ := this; exact ⟨g1, hr, ha', ht.step hr (sread_cbs hs)⟩
    | ub u => trivial
  rread := by
    intro w g reg ⟨ha, ht⟩
    have := cov.rread w g reg ha
    cases hs : Shadow.rread cached w reg with
    | ok r w' => rw [hs] at this; obtain ⟨g1, hr, ha'⟩ := this; exact ⟨g1, hr, ha', ht.step hr (rread_cbs hs)⟩
    | ub u => trivial
  swrite := by
    intro w g reg d ⟨ha, ht⟩
    have := cov.swrite w g reg d ha
    cases hs : Shadow.swrite cached w reg d with
    | ok r w' => rw [hs] at this; obtain ⟨g1, hr, ha'⟩ := this; exact ⟨g1, hr, ha', ht.step hr (swrite_cbs hs)⟩
    | ub u => trivial
  bwrite := by
    intro w g reg d ⟨ha, ht⟩
    have := cov.bwrite w g reg d ha
    cases hs : Shadow.bwrite cached w reg d with
    | ok r w' => rw [hs] at this; obtain ⟨g1, hr, ha'⟩ := this; exact ⟨g1, hr, ha', ht.step hr (bwrite_cbs hs)⟩
    | ub u => trivial
  bread := by
    intro w g reg n ⟨ha, ht⟩
    obtain ⟨g1, hr, ha'⟩ := cov.bread w g reg n ha
    exact ⟨g1, hr, ha', ht.step hr (busReadBuf_cbs w reg n)⟩
  rawbread := by
    intro w g reg n ⟨ha, ht⟩
    obtain ⟨g1, hr, ha'⟩ := cov.rawbread w g reg n ha
    exact ⟨g1, hr, ha', ht.step hr (busReadBuf_cbs w reg n)⟩
  cb := by
    intro w g e h ⟨ha, ht⟩
    have := cov.cb w g e h ha
    cases ho : onCb e h w with
    | ub u w' => trivial
    | done h' w' =>
      rw [ho] at this
      obtain ⟨g1, hr, ha'⟩ := this
      refine ⟨g1, hr, ha', ?_⟩
      rcases ht with hb | ht
      · exact Or.inl (K.C_bad g e h h' g1 hr hb)
      · by_cases hb' : K.bad g1
        · exact Or.inl hb'
        · right
          rw [K.C_appends g e h h' g1 hr hb', ht, honcb e h w h' w' ho]
          simp

/-- the callbacks an observation shows -/
def Obs.cbEvents : Obs → List CbEvent
  | .ret _ cbs _ => cbs.map (·.ev)
  | _ => []

end Sx
