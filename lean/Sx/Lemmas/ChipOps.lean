import Sx.Lemmas.Chip
import Sx.Lemmas.Bytes
/- Rewrite rules for single register accesses in a known page. -/
namespace Sx
open Mem Chip

theorem readN_one (c : Chip) (reg : Nat) (h : reg % 128 ≠ 0) : c.readN reg 1 = ([c.peek (reg % 128)], c) := by
  simp [readN, read_nonzero reg h]

theorem writeN_one (c : Chip) (reg : Nat) (v : UInt8) : c.writeN reg [v] = c.write reg v := by
  simp [writeN]

theorem writeN_two (c : Chip) (reg : Nat) (v w : UInt8) (h : reg ≠ 0) :
    c.writeN reg [v, w] = (c.write reg v).write (reg + 1) w := by
  simp [writeN, h]

theorem peek_lora (c : Chip) (a : Nat) (hl : c.isLora = true) (hp : inPage a = true) : c.peek a = c.lora.rd a := by
  simp [peek, cell, hl, hp]

theorem peek_fsk (c : Chip) (a : Nat) (hl : c.isLora = false) (hp : inPage a = true) (h : a ≠ 0x3f) :
    c.peek a = c.fsk.rd a := by
  simp [peek, cell, hl, hp, h]

theorem peek_shared (c : Chip) (a : Nat) (hp : inPage a = false) : c.peek a = c.shared.rd a := by
  have : a ≠ 0x3f := by intro e; subst e; simp [inPage] at hp
  simp [peek, cell, hp, this]

theorem write_lora (c : Chip) (a : Nat) (v : UInt8) (hl : c.isLora = true) (ha : a < 128) (hp : inPage a = true)
    (h12 : a ≠ 0x12) : c.write a v = { c with lora := c.lora.wr a v } := by
  have hm : a % 128 = a := Nat.mod_eq_of_lt ha
  have h0 : a ≠ 0 := by intro e; subst e; simp [inPage] at hp
  simp [write, hm, h0, hl, h12, setCell, hp]

theorem write_fsk (c : Chip) (a : Nat) (v : UInt8) (hl : c.isLora = false) (ha : a < 128) (hp : inPage a = true)
    (h3e : a ≠ 0x3e) (h3f : a ≠ 0x3f) : c.write a v = { c with fsk := c.fsk.wr a v } := by
  have hm : a % 128 = a := Nat.mod_eq_of_lt ha
  have h0 : a ≠ 0 := by intro e; subst e; simp [inPage] at hp
  simp [write, hm, h0, hl, h3e, h3f, setCell, hp]

theorem write_shared (c : Chip) (a : Nat) (v : UInt8) (ha : a < 128) (h0 : a ≠ 0) (hp : inPage a = false) :
    c.write a v = { c with shared := c.shared.wr a v } := by
  have hm : a % 128 = a := Nat.mod_eq_of_lt ha
  have h12 : a ≠ 0x12 := by intro e; subst e; simp [inPage] at hp
  have h3e : a ≠ 0x3e := by intro e; subst e; simp [inPage] at hp
  have h3f : a ≠ 0x3f := by intro e; subst e; simp [inPage] at hp
  simp [write, hm, h0, h12, h3e, h3f, setCell, hp]

@[simp] theorem isLora_lora_upd (c : Chip) (m : Mem) : ({ c with lora := m } : Chip).isLora = c.isLora := rfl
@[simp] theorem isLora_fsk_upd (c : Chip) (m : Mem) : ({ c with fsk := m } : Chip).isLora = c.isLora := rfl

end Sx
