import Sx.Lemmas.RxSteps
import Sx.Lemmas.TxSteps
namespace Sx
open Sx.Model DM

/-- the ghost side of a reception of the frame `hdr ++ P` -/
structure RxGI (hdr P : List UInt8) (g : RxG) : Prop where
  wf : g.Wf
  live : g.live
  stream : g.taken ++ g.fifo ++ g.pending = hdr ++ P

theorem RxGI.adv {hdr P g g1} (hi : RxGI hdr P g) (ha : g.Adv g1) :
    RxGI hdr P g1 ∧ g.Same g1 ∧ g.fifo.length ≤ g1.fifo.length ∧ ((g.over = true → g.ready = true) → (g1.over = true → g1.ready = true)) ∧ g1.taken = g.taken ∧ (g.over = true → g1.over = true) := by
  obtain ⟨hw1, hs, hst, hlen, hov, hk, _, htk⟩ := ha.facts hi.wf
  refine ⟨⟨hw1, hs.live hi.live, ?_⟩, hs, hlen, hk, htk, fun h => (hov h).1⟩
  rw [htk, List.append_assoc, hst, ← List.append_assoc]; exact hi.stream

/-- `g1` is reached from `g` by arrivals only -/
structure Fwd (hdr P : List UInt8) (g g1 : RxG) : Prop where
  gi : RxGI hdr P g1
  same : g.Same g1
  len : g.fifo.length ≤ g1.fifo.length
  kept : (g.over = true → g.ready = true) → (g1.over = true → g1.ready = true)
  taken : g1.taken = g.taken
  over : g.over = true → g1.over = true

theorem Fwd.refl {hdr P g} (hi : RxGI hdr P g) : Fwd hdr P g g := ⟨hi, RxG.Same.refl g, Nat.le_refl _, id, rfl, id⟩
theorem Fwd.step {hdr P g g1 g2} (hf : Fwd hdr P g g1) (ha : g1.Adv g2) : Fwd hdr P g g2 := by
  obtain ⟨hi2, hs, hl, hk, htk, hov⟩ := hf.gi.adv ha
  exact ⟨hi2, hf.same.trans hs, Nat.le_trans hf.len hl, fun h => hk (hf.kept h), htk.trans hf.taken, fun h => hov (hf.over h)⟩

theorem RxGI.faulted {hdr P g} (hi : RxGI hdr P g) : RxGI hdr P { g with faulted := true } :=
  ⟨⟨hi.wf.overPending, hi.wf.readyOver, hi.wf.crc, hi.wf.crcReady, hi.wf.room⟩, hi.live, hi.stream⟩

/-- a failed transfer after some arrivals -/
theorem Fwd.stepF {hdr P g g1 g2} (hf : Fwd hdr P g g1) (ha : g1.AdvF g2) : Fwd hdr P g g2 ∧ g2.faulted = true := by
  obtain ⟨g1', ha', rfl⟩ := ha
  have f := hf.step ha'
  exact ⟨⟨f.gi.faulted, ⟨f.same.cfg1, f.same.cfg2, f.same.plen, f.same.crcGood, f.same.cbs, f.same.ended, f.same.poison⟩, f.len, f.kept, f.taken, f.over⟩, rfl⟩

theorem take_prefix {a b c d : List UInt8} (h : a ++ b = c ++ d) (hl : c.length ≤ a.length) : a.take c.length = c := by
  have h1 : (a ++ b).take c.length = a.take c.length := by
    rw [List.take_append_of_le_length hl]
  have h2 : (c ++ d).take c.length = c := by simp
  rw [← h1, h, h2]

/-- the ghost side of the host taking the header out of the FIFO -/
theorem take_hdr {hdr P : List UInt8} {g g1 : RxG} (hf : Fwd hdr P g g1) (htk : g.taken = []) (hfifo : hdr.length ≤ g.fifo.length) :
    g1.fifo.take hdr.length = hdr ∧ RxGI hdr P (g1.take hdr.length) ∧ (g1.take hdr.length).taken = hdr
      ∧ g.fifo.length ≤ (g1.take hdr.length).fifo.length + hdr.length ∧ g.Same (g1.take hdr.length)
      ∧ ((g.over = true → g.ready = true) → hdr.length < g.fifo.length → ((g1.take hdr.length).over = true → (g1.take hdr.length).ready = true))
      ∧ (g.over = true → (g1.take hdr.length).over = true) := by
  have hn : hdr.length ≤ g1.fifo.length := Nat.le_trans hfifo hf.len
  have htk1 : g1.taken = [] := hf.taken.trans htk
  have hst := hf.gi.stream
  rw [htk1, List.nil_append] at hst
  have hpre := take_prefix hst hn
  obtain ⟨hw2, hs2, htk2, hfifo2, hpend2, hover2, hrdy2, _⟩ := RxG.take_facts g1 hdr.length hn hf.gi.wf
  refine ⟨hpre, ⟨hw2, ?_, ?_⟩, ?_, ?_, ?_, ?_, fun ho => by rw [hover2]; exact hf.over ho⟩
  · exact ⟨hs2.poison.trans hf.gi.live.1, hs2.ended.trans hf.gi.live.2⟩
  · rw [htk2, htk1, List.nil_append, hfifo2, hpend2, hpre, List.append_assoc, ← hst]
    conv => rhs; rw [← List.take_append_drop hdr.length g1.fifo, hpre]
    rw [List.append_assoc]
  · rw [htk2, htk1, List.nil_append, hpre]
  · rw [hfifo2, List.length_drop]; have := hf.len; omega
  · have := hf.same
    exact ⟨hs2.cfg1.trans this.cfg1, hs2.cfg2.trans this.cfg2, hs2.plen.trans this.plen, hs2.crcGood.trans this.crcGood,
      hs2.cbs.trans this.cbs, hs2.ended.trans this.ended, hs2.poison.trans this.poison⟩
  · intro hk hlt ho
    have hne : g1.fifo.drop hdr.length ≠ [] := by
      intro he
      have := congrArg List.length he
      rw [List.length_drop] at this; simp at this; have := hf.len; omega
    rw [(hrdy2 hne).1]
    exact hf.kept hk (by rw [← hover2]; exact ho)

def afOf (cfg1 : UInt8) : Bool := decide ((cfg1 &&& 0x06).toNat = Gen.SX127X_FILTER_NODE_ADDRESS ∨ (cfg1 &&& 0x06).toNat = Gen.SX127X_FILTER_NODE_AND_BROADCAST)
def fixedLenOf (cfg2 plen : UInt8) : UInt16 := (((cfg2 &&& 0x07).toUInt16) <<< 8) + plen.toUInt16

/-- the frame has the shape the configured packet format announces: length byte (variable
    format, counting the address byte), address byte when filtering is on, payload `P` -/
def HdrOk (fmt : Nat) (g : RxG) (hdr P : List UInt8) : Prop :=
  (fmt = Gen.SX127X_VARIABLE ∧ ∃ len rest, hdr = len :: rest ∧ rest.length = (if afOf g.cfg1 then 1 else 0)
      ∧ len.toNat = P.length + rest.length) ∨
  (fmt = Gen.SX127X_FIXED ∧ hdr.length = (if afOf g.cfg1 then 1 else 0)
      ∧ (fixedLenOf g.cfg2 g.plen).toNat = hdr.length + P.length)

theorem header_spec (hdr P : List UInt8) (h : Handle) (g : RxG) (hi : RxGI hdr P g) (hexp : h.expected = 0)
    (htk : g.taken = []) (hfifo : hdr.length ≤ g.fifo.length) (hok : HdrOk h.format g hdr P) :
    DM.gwp rxE readPayloadHeader h g (fun g' r h' =>
      (r = .ok (some hdr.length) ∧ h' = { h with expected := UInt16.ofNat P.length } ∧ RxGI hdr P g' ∧ g'.taken = hdr
      ∧ g.fifo.length ≤ g'.fifo.length + hdr.length ∧ g.Same g'
      ∧ ((g.over = true → g.ready = true) → hdr.length < g.fifo.length → (g'.over = true → g'.ready = true))
      ∧ (g.over = true → g'.over = true))
      -- a transfer failed: nothing was taken out of the FIFO and the handle is what it was
      ∨ (∃ c, r = .error c ∧ h' = h ∧ Fwd hdr P g g' ∧ g'.faulted = true)) := by
  unfold readPayloadHeader
  rw [gwp_bind, gwp_getH]
  dsimp only
  rw [if_neg (by rw [hexp]; exact fun hn => hn rfl)]
  unfold fskOokIsAddressFiltered
  rw [gwp_bind, gwp_bind, gwp_rread]
  intro r1 g1 hr1
  rcases rx_cfg hi.live _ r1 g1 hr1 with ⟨c, hre, hae⟩ | hcfg
  · subst hre; exact Or.inr ⟨c, rfl, rfl, ((Fwd.refl hi).stepF hae).1, ((Fwd.refl hi).stepF hae).2⟩
  obtain ⟨hr1v, ha1⟩ := hcfg.1 rfl
  subst hr1v
  have f1 : Fwd hdr P g g1 := (Fwd.refl hi).step ha1
  dsimp only
  rw [gwp_pure]
  dsimp only
  generalize haf : decide ((g.cfg1 &&& 6).toNat = Gen.SX127X_FILTER_NODE_ADDRESS ∨ (g.cfg1 &&& 6).toNat = Gen.SX127X_FILTER_NODE_AND_BROADCAST) = af
  have haf' : afOf g.cfg1 = af := haf
  unfold HdrOk at hok
  rw [haf'] at hok
  rcases hok with ⟨hfmt, len, rest, hhdr, hrest, hlen⟩ | ⟨hfmt, hhl, hfl⟩
  · -- variable format
    rw [if_neg (by rw [hfmt]; decide), if_pos hfmt]
    have hn : (if af = true then 2 else 1) = hdr.length := by
      rw [hhdr, List.length_cons, hrest]; cases af <;> rfl
    rw [hn, gwp_bind, gwp_bread]
    intro r2 g2 hr2
    rcases rx_bread f1.gi.live _ r2 g2 hr2 with ⟨c, hre, hae⟩ | ⟨d, g1', hr2v, ha2, hg2, hdl, hdv⟩
    · subst hre; exact Or.inr ⟨c, rfl, rfl, (f1.stepF hae).1, (f1.stepF hae).2⟩
    subst hr2v hg2
    have f2 := f1.step ha2
    obtain ⟨hpre, hgi, htk', hlen', hsame, hkept, hover'⟩ := take_hdr f2 htk hfifo
    have hd : d = hdr := by rw [hdv (Nat.le_trans hfifo f2.len)]; exact hpre
    subst hd
    dsimp only
    rw [gwp_bind, gwp_modH]
    dsimp only
    rw [gwp_pure]
    refine Or.inl ⟨rfl, ?_, hgi, htk', hlen', hsame, hkept, hover'⟩
    have hl0 : (len :: rest).getD 0 0 = len := rfl
    simp only [hhdr, hl0]
    congr 1
    apply UInt16.toNat_inj.mp
    have hl255 := len.toNat_lt
    have h16 : len.toUInt16.toNat = len.toNat := by simp
    cases af with
    | true =>
      simp only [if_true] at hrest
      have hpos : len.toUInt16 > 0 := by
        show (0 : UInt16).toNat < len.toUInt16.toNat; rw [h16]; show 0 < len.toNat; omega
      rw [if_pos ⟨rfl, hpos⟩]
      rw [UInt16.toNat_sub_of_le _ _ (by show (1:UInt16).toNat ≤ len.toUInt16.toNat; rw [h16]; show 1 ≤ len.toNat; omega)]
      rw [h16]; simp [UInt16.toNat_ofNat']; omega
    | false =>
      simp only [Bool.false_eq_true, if_false] at hrest
      rw [if_neg (fun hx => Bool.false_ne_true hx.1)]
      rw [h16]; simp [UInt16.toNat_ofNat']; omega
  · -- fixed format
    rw [if_pos hfmt]
    unfold fskOokReadFixedPacketLength
    rw [gwp_bind, gwp_bind, gwp_rread]
    intro r2 g2 hr2
    rcases rx_cfg f1.gi.live _ r2 g2 hr2 with ⟨c, hre, hae⟩ | hcfg2
    · subst hre; exact Or.inr ⟨c, rfl, rfl, (f1.stepF hae).1, (f1.stepF hae).2⟩
    obtain ⟨hr2v, ha2⟩ := hcfg2.2.1 rfl
    subst hr2v
    have f2 := f1.step ha2
    dsimp only
    rw [gwp_bind, gwp_rread]
    intro r3 g3 hr3
    rcases rx_cfg f2.gi.live _ r3 g3 hr3 with ⟨c, hre, hae⟩ | hcfg3
    · subst hre; exact Or.inr ⟨c, rfl, rfl, (f2.stepF hae).1, (f2.stepF hae).2⟩
    obtain ⟨hr3v, ha3⟩ := hcfg3.2.2.1 rfl
    subst hr3v
    have f3 := f2.step ha3
    dsimp only
    rw [gwp_pure]
    dsimp only
    rw [f1.same.cfg2, f2.same.plen]
    have hflv : (((g.cfg2 &&& 7).toUInt16 <<< 8) + g.plen.toUInt16) = fixedLenOf g.cfg2 g.plen := rfl
    rw [hflv]
    generalize fixedLenOf g.cfg2 g.plen = fl at hfl ⊢
    have hexpv : (if af = true ∧ fl > 0 then fl - 1 else fl) = UInt16.ofNat P.length := by
      apply UInt16.toNat_inj.mp
      have hfl16 := fl.toNat_lt
      cases af with
      | true =>
        simp only [if_true] at hhl
        have hpos : fl > 0 := by show (0 : UInt16).toNat < fl.toNat; show 0 < fl.toNat; omega
        rw [if_pos ⟨rfl, hpos⟩, UInt16.toNat_sub_of_le _ _ (by show (1:UInt16).toNat ≤ fl.toNat; show 1 ≤ fl.toNat; omega)]
        simp [UInt16.toNat_ofNat']; omega
      | false =>
        simp only [Bool.false_eq_true, if_false] at hhl
        rw [if_neg (fun hx => Bool.false_ne_true hx.1)]
        simp [UInt16.toNat_ofNat']; omega
    rw [hexpv]
    cases af with
    | true =>
      simp only [if_true] at hhl ⊢
      rw [if_pos (by decide), ← hhl, gwp_bind, gwp_bread]
      intro r4 g4 hr4
      rcases rx_bread f3.gi.live _ r4 g4 hr4 with ⟨c, hre, hae⟩ | ⟨d, g3', hr4v, ha4, hg4, hdl, hdv⟩
      · subst hre; exact Or.inr ⟨c, rfl, rfl, (f3.stepF hae).1, (f3.stepF hae).2⟩
      subst hr4v hg4
      have f4 := f3.step ha4
      obtain ⟨hpre, hgi, htk', hlen', hsame, hkept, hover'⟩ := take_hdr f4 htk hfifo
      dsimp only
      rw [gwp_bind, gwp_modH]
      dsimp only
      rw [gwp_pure]
      exact Or.inl ⟨rfl, rfl, hgi, htk', hlen', hsame, hkept, hover'⟩
    | false =>
      simp only [Bool.false_eq_true, if_false] at hhl ⊢
      rw [if_neg (by decide), gwp_bind, gwp_modH]
      dsimp only
      rw [gwp_pure]
      have hnil : hdr = [] := List.eq_nil_of_length_eq_zero hhl
      subst hnil
      exact Or.inl ⟨rfl, rfl, f3.gi, f3.taken.trans htk, by simpa using f3.len, f3.same, fun hk _ => f3.kept hk, f3.over⟩
end Sx
