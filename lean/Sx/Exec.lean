import Sx.Prog
import Sx.Chip
import Sx.Gen.Consts
/-
  The interpreter: runs a `Prog` against the chip model.  It contains the model of the register
  cache (lines 107-198 of sx127x.c, both bodies selected by CONFIG_SX127X_DISABLE_SPI_CACHE),
  the SPI bus with its fault oracle, and the interleaving of environment events with the bus
  transfers of a running operation (one batch of events before every transfer).
-/
namespace Sx

/-- `shadow_registers` / `shadow_registers_sync` -/
structure Cache where
  vals : Mem
  sync : Mem       -- 0 SHADOW_NOT_CACHED, 1 SHADOW_CACHED, 2 SHADOW_IGNORE
  deriving DecidableEq, Repr, Inhabited

namespace Cache
/-- after `memset(result, 0, ..)` and the never-cache statements of `sx127x_create` -/
def fresh : Cache :=
  { vals := Mem.zeros Gen.MAX_NUMBER_OF_REGISTERS,
    sync := Gen.ignoreList.foldl (fun s a => s.wr a (UInt8.ofNat Gen.SHADOW_IGNORE)) (Mem.zeros Gen.MAX_NUMBER_OF_REGISTERS) }
def size (c : Cache) : Nat := c.sync.length
def isIgnore (c : Cache) (a : Nat) : Bool := c.sync.rd a == UInt8.ofNat Gen.SHADOW_IGNORE
def isCached (c : Cache) (a : Nat) : Bool := c.sync.rd a == UInt8.ofNat Gen.SHADOW_CACHED
/-- `sx127x_shadow_store`: remember the transferred bytes register by register; never-cache
    registers inside the range stay untouched -/
def store (c : Cache) (reg : Nat) : List UInt8 → Cache
  | [] => c
  | v :: vs =>
    let c' := if c.isIgnore reg then c
              else { vals := c.vals.wr reg v, sync := c.sync.wr reg (UInt8.ofNat Gen.SHADOW_CACHED) }
    store c' (reg + 1) vs
/-- the page invalidation added to `sx127x_shadow_spi_write_register` for `reg == REGOPMODE` -/
def dropPage (c : Cache) : Cache :=
  let drop (s : Mem) (i : Nat) : Mem :=
    let a := Gen.REGFIFOADDRPTR + i
    if s.rd a == UInt8.ofNat Gen.SHADOW_CACHED then s.wr a (UInt8.ofNat Gen.SHADOW_NOT_CACHED) else s
  { c with sync := (List.range (Gen.REGIRQFLAGS2 + 1 - Gen.REGFIFOADDRPTR)).foldl drop c.sync }
/-- length of the cached prefix of `[reg, reg+n)` (the loop at l.116-123), and its value -/
def prefixLen (c : Cache) (reg : Nat) : Nat → Nat
  | 0 => 0
  | n + 1 => if c.isCached reg then 1 + prefixLen c (reg + 1) n else 0
end Cache

/-- one SPI transfer as seen on the bus -/
inductive BusEv
  | r (reg n : Nat) (res : Except Code UInt32)
  | rb (reg n : Nat) (res : Except Code (List UInt8))
  | w (reg : Nat) (data : List UInt8) (res : Except Code Unit)
  | wb (reg : Nat) (data : List UInt8) (res : Except Code Unit)
  deriving Repr, Inhabited

def BusEv.isWrite : BusEv → Bool
  | .w .. | .wb .. => true
  | _ => false

/-- a callback invocation with what the application did inside it -/
structure CbRec where
  ev : CbEvent
  reaction : Option (Except Code Out) := none     -- result of the API call the application made inside
  deriving Repr, Inhabited

structure World where
  chip : Chip := {}
  cache : Cache := Cache.fresh
  xfer : Nat := 0                        -- bus transfer index inside the current operation
  sched : List (Nat × Env) := []         -- environment events to fire before transfer k
  faults : List (Nat × Code) := []       -- transfer k fails with the code
  bus : List BusEv := []                 -- trace of the current operation, newest first
  cbs : List CbRec := []                 -- callbacks of the current operation, newest first
  deriving Inhabited

inductive Outcome (α : Type)
  | done (a : α) (w : World)
  | ub (u : UB) (w : World)

namespace World
/-- what happens on the chip side right before a transfer is performed, and whether it faults.
    A faulted transfer has no effect on the chip. -/
def pre (w : World) : World × Option Code :=
  let chip := w.sched.foldl (fun c e => if e.1 = w.xfer then e.2.apply c else c) w.chip
  let code := w.faults.foldl (fun r f => if f.1 = w.xfer then some f.2 else r) none
  ({ w with chip := chip, xfer := w.xfer + 1 }, code)

/-- `sx127x_spi_read_registers` -/
def busRead (w : World) (reg n : Nat) : Except Code UInt32 × World :=
  let (w, code) := w.pre
  match code with
  | some c => (.error c, { w with bus := .r reg n (.error c) :: w.bus })
  | none =>
    let (vs, chip) := w.chip.readN reg n
    let v := be32 vs
    (.ok v, { w with chip := chip, bus := .r reg n (.ok v) :: w.bus })

/-- `sx127x_spi_read_buffer` -/
def busReadBuf (w : World) (reg n : Nat) : Except Code (List UInt8) × World :=
  let (w, code) := w.pre
  match code with
  | some c => (.error c, { w with bus := .rb reg n (.error c) :: w.bus })
  | none =>
    let (vs, chip) := w.chip.readN reg n
    (.ok vs, { w with chip := chip, bus := .rb reg n (.ok vs) :: w.bus })

/-- `sx127x_spi_write_register` -/
def busWrite (w : World) (reg : Nat) (data : List UInt8) : Except Code Unit × World :=
  let (w, code) := w.pre
  match code with
  | some c => (.error c, { w with bus := .w reg data (.error c) :: w.bus })
  | none => (.ok (), { w with chip := w.chip.writeN reg data, bus := .w reg data (.ok ()) :: w.bus })

/-- `sx127x_spi_write_buffer` -/
def busWriteBuf (w : World) (reg : Nat) (data : List UInt8) : Except Code Unit × World :=
  let (w, code) := w.pre
  match code with
  | some c => (.error c, { w with bus := .wb reg data (.error c) :: w.bus })
  | none => (.ok (), { w with chip := w.chip.writeN reg data, bus := .wb reg data (.ok ()) :: w.bus })
end World

/-- the result of one shadow-layer call: its C return value, or undefined behaviour -/
inductive Step (α : Type)
  | ok (r : Except Code α) (w : World)
  | ub (u : UB)

namespace Shadow
/-- `sx127x_shadow_spi_read_registers` (l.107) -/
def sread (cached : Bool) (w : World) (reg n : Nat) : Step UInt32 :=
  if !cached then let (r, w) := w.busRead reg n; .ok r w else
  if reg ≥ w.cache.size then .ub .oobShadow else
  if w.cache.isIgnore reg then let (r, w) := w.busRead reg n; .ok r w else
  let k := w.cache.prefixLen reg n
  -- the loop reads sync[reg+i] for i < n until the first miss
  if reg + (if k < n then k + 1 else k) > w.cache.size then .ub .oobShadow else
  if k = n then .ok (.ok (be32 (w.cache.vals.rds reg n))) w else
  let (r, w) := w.busRead reg n
  match r with
  | .error c => .ok (.error c) w
  | .ok v =>
    if reg + n > w.cache.size then .ub .oobShadow else
    .ok (.ok v) { w with cache := w.cache.store reg ((List.range n).map (byteOf v n)) }

/-- `sx127x_read_register` (l.174) -/
def rread (cached : Bool) (w : World) (reg : Nat) : Step UInt8 :=
  if !cached then
    let (r, w) := w.busRead reg 1
    .ok (r.map UInt32.toUInt8) w
  else
  if reg ≥ w.cache.size then .ub .oobShadow else
  if w.cache.isIgnore reg then
    let (r, w) := w.busRead reg 1
    .ok (r.map UInt32.toUInt8) w
  else if w.cache.isCached reg then .ok (.ok (w.cache.vals.rd reg)) w
  else
    let (r, w) := w.busRead reg 1
    match r with
    | .error c => .ok (.error c) w
    | .ok v => .ok (.ok v.toUInt8) { w with cache := { vals := w.cache.vals.wr reg v.toUInt8, sync := w.cache.sync.wr reg (UInt8.ofNat Gen.SHADOW_CACHED) } }

/-- `sx127x_shadow_spi_write_register` (l.146, with the page invalidation) -/
def swrite (cached : Bool) (w : World) (reg : Nat) (data : List UInt8) : Step Unit :=
  let (r, w) := w.busWrite reg data
  if !cached then .ok r w else
  match r with
  | .error c => .ok (.error c) w
  | .ok () =>
    let w := if reg = Gen.REGOPMODE then { w with cache := w.cache.dropPage } else w
    if reg + data.length > w.cache.size then .ub .oobShadow else
    .ok (.ok ()) { w with cache := w.cache.store reg data }

/-- `sx127x_shadow_spi_write_buffer` (l.158) -/
def bwrite (cached : Bool) (w : World) (reg : Nat) (data : List UInt8) : Step Unit :=
  let (r, w) := w.busWriteBuf reg data
  if !cached then .ok r w else
  match r with
  | .error c => .ok (.error c) w
  | .ok () =>
    if reg = Gen.REGFIFO then .ok (.ok ()) w else
    if reg + data.length > w.cache.size then .ub .oobShadow else
    .ok (.ok ()) { w with cache := w.cache.store reg data }
end Shadow

namespace Outcome
def world : Outcome α → World
  | .done _ w => w
  | .ub _ w => w
end Outcome

/-- run a program; `onCb` says what happens at a callback node (logging, the application's
    reaction) and yields the handle as the application leaves it -/
def execG (cached : Bool) (onCb : CbEvent → Handle → World → Outcome Handle) : Prog α → World → Outcome α
  | .ret a, w => .done a w
  | .ub u, w => .ub u w
  | .sread reg n k, w =>
    match Shadow.sread cached w reg n with
    | .ok r w => execG cached onCb (k r) w
    | .ub u => .ub u w
  | .rread reg k, w =>
    match Shadow.rread cached w reg with
    | .ok r w => execG cached onCb (k r) w
    | .ub u => .ub u w
  | .swrite reg d k, w =>
    match Shadow.swrite cached w reg d with
    | .ok r w => execG cached onCb (k r) w
    | .ub u => .ub u w
  | .bwrite reg d k, w =>
    match Shadow.bwrite cached w reg d with
    | .ok r w => execG cached onCb (k r) w
    | .ub u => .ub u w
  | .bread reg n k, w =>
    let (r, w) := w.busReadBuf reg n
    execG cached onCb (k r) w
  | .rawbread reg n k, w =>
    let (r, w) := w.busReadBuf reg n
    execG cached onCb (k r) w
  | .callback e h k, w =>
    match onCb e h w with
    | .done h' w' => execG cached onCb (k h') w'
    | .ub u w' => .ub u w'

/-- a callback without application reaction: it is only logged -/
def logCb (e : CbEvent) (h : Handle) (w : World) : Outcome Handle :=
  .done h { w with cbs := { ev := e } :: w.cbs }

/-- run a program in which callbacks (if any) have no application reaction -/
def exec0 (cached : Bool) (p : Prog α) (w : World) : Outcome α := execG cached logCb p w

/-- What the application does inside a callback: at most one API call, given as a program on the
    handle plus the text the trace shows for it. -/
structure Reaction where
  run : Handle → Prog (Except Code Out × Handle)

structure Cfg where
  cached : Bool := true
  onRx : Option Reaction := none
  onTx : Option Reaction := none
  onCad : Option Reaction := none

def Cfg.reactionFor (cfg : Cfg) : CbEvent → Option Reaction
  | .rx .. => cfg.onRx
  | .tx => cfg.onTx
  | .cad _ => cfg.onCad

/-- on a callback the application's reaction (an API call, which itself invokes no callback)
    runs to completion before the handler continues -/
def Cfg.onCb (cfg : Cfg) (e : CbEvent) (h : Handle) (w : World) : Outcome Handle :=
  match cfg.reactionFor e with
  | none => logCb e h w
  | some re =>
    match exec0 cfg.cached (re.run h) w with
    | .done (r, h') w' => .done h' { w' with cbs := { ev := e, reaction := some r } :: w'.cbs }
    | .ub u w' => .ub u w'

def exec (cfg : Cfg) (p : Prog α) (w : World) : Outcome α := execG cfg.cached cfg.onCb p w

end Sx
