import Sx.Prog
import Sx.Chip
import Sx.Gen.Consts
/-
  The interpreter: runs a `Prog` against the chip model.  It contains the model of the register
  cache (lines 107-198 of sx127x.c, both bodies selected by CONFIG_SX127X_DISABLE_SPI_CACHE),
  the SPI bus with its fault oracle, and the interleaving of environment events with the bus
  transfers of a running operation (one batch of events before every transfer).
-/
namespace Sx

/-- `shadow_registers` / `shadow_registers_sync` -/
structure Cache where
  vals : Mem
  sync : Mem       -- 0 SHADOW_NOT_CACHED, 1 SHADOW_CACHED, 2 SHADOW_IGNORE
  deriving DecidableEq, Repr, Inhabited

namespace Cache
/-- after `memset(result, 0, ..)` and the never-cache statements of `sx127x_create` -/
def fresh : Cache :=
  { vals := Mem.zeros Gen.MAX_NUMBER_OF_REGISTERS,
    sync := Gen.ignoreList.foldl (fun s a => s.wr a (UInt8.ofNat Gen.SHADOW_IGNORE)) (Mem.zeros Gen.MAX_NUMBER_OF_REGISTERS) }
def size (c : Cache) : Nat := c.sync.length
def isIgnore (c : Cache) (a : Nat) : Bool := c.sync.rd a == UInt8.ofNat Gen.SHADOW_IGNORE
def isCached (c : Cache) (a : Nat) : Bool := c.sync.rd a == UInt8.ofNat Gen.SHADOW_CACHED
/-- `sx127x_shadow_store`: remember the transferred bytes register by register; never-cache
    registers inside the range stay untouched -/
def store (c : Cache) (reg : Nat) : List UInt8 → Cache
  | [] => c
  | v :: vs =>
    let c' := if c.isIgnore reg then c
              else { vals := c.vals.wr reg v, sync := c.sync.wr reg (UInt8.ofNat Gen.SHADOW_CACHED) }
    store c' (reg + 1) vs
/-- one step of the page invalidation: a CACHED entry becomes NOT_CACHED -/
def dropStep (s : Mem) (i : Nat) : Mem :=
  let a := Gen.REGFIFOADDRPTR + i
  if s.rd a == UInt8.ofNat Gen.SHADOW_CACHED then s.wr a (UInt8.ofNat Gen.SHADOW_NOT_CACHED) else s
/-- the page invalidation added to `sx127x_shadow_spi_write_register` for `reg == REGOPMODE` -/
def dropPage (c : Cache) : Cache :=
  { c with sync := (List.range (Gen.REGIRQFLAGS2 + 1 - Gen.REGFIFOADDRPTR)).foldl dropStep c.sync }
/-- length of the cached prefix of `[reg, reg+n)` (the loop at l.116-123), and its value -/
def prefixLen (c : Cache) (reg : Nat) : Nat → Nat
  | 0 => 0
  | n + 1 => if c.isCached reg then 1 + prefixLen c (reg + 1) n else 0
end Cache

/-- one SPI transfer as seen on the bus -/
inductive BusEv
  | r (reg n : Nat) (res : Except Code UInt32)
  | rb (reg n : Nat) (res : Except Code (List UInt8))
  | w (reg : Nat) (data : List UInt8) (res : Except Code Unit)
  | wb (reg : Nat) (data : List UInt8) (res : Except Code Unit)
  deriving Repr, Inhabited

def BusEv.isWrite : BusEv → Bool
  | .w .. | .wb .. => true
  | _ => false

/-- a callback invocation with what the application did inside it -/
structure CbRec where
  ev : CbEvent
  reaction : Option (Except Code Out) := none     -- result of the API call the application made inside
  deriving Repr, Inhabited

structure World where
  chip : Chip := {}
  cache : Cache := Cache.fresh
  xfer : Nat := 0                        -- bus transfer index inside the current operation
  sched : List (Nat × Env) := []         -- environment events to fire before transfer k
  faults : List (Nat × Code) := []       -- transfer k fails with the code
  bus : List BusEv := []                 -- trace of the current operation, newest first
  cbs : List CbRec := []                 -- callbacks of the current operation, newest first
  deriving Inhabited

inductive Outcome (α : Type)
  | done (a : α) (w : World)
  | ub (u : UB) (w : World)

namespace World
/-- what happens on the chip side right before a transfer is performed, and whether it faults.
    A faulted transfer has no effect on the chip. -/
def pre (w : World) : World × Option Code :=
  let chip := w.sched.foldl (fun c e => if e.1 = w.xfer then e.2.apply c else c) w.chip
  let code := w.faults.foldl (fun r f => if f.1 = w.xfer then some f.2 else r) none
  ({ w with chip := chip, xfer := w.xfer + 1 }, code)

/-- `sx127x_spi_read_registers` -/
def busRead (w : World) (reg n : Nat) : Except Code UInt32 × World :=
  let (w, code) := w.pre
  match code with
  | some c => (.error c, { w with bus := .r reg n (.error c) :: w.bus })
  | none =>
    let (vs, chip) := w.chip.readN reg n
    let v := be32 vs
    (.ok v, { w with chip := chip, bus := .r reg n (.ok v) :: w.bus })

/-- `sx127x_spi_read_buffer` -/
def busReadBuf (w : World) (reg n : Nat) : Except Code (List UInt8) × World :=
  let (w, code) := w.pre
  match code with
  | some c => (.error c, { w with bus := .rb reg n (.error c) :: w.bus })
  | none =>
    let (vs, chip) := w.chip.readN reg n
    (.ok vs, { w with chip := chip, bus := .rb reg n (.ok vs) :: w.bus })

/-- `sx127x_spi_write_register` -/
def busWrite (w : World) (reg : Nat) (data : List UInt8) : Except Code Unit × World :=
  let (w, code) := w.pre
  match code with
  | some c => (.error c, { w with bus := .w reg data (.error c) :: w.bus })
  | none => (.ok (), { w with chip := w.chip.writeN reg data, bus := .w reg data (.ok ()) :: w.bus })

/-- `sx127x_spi_write_buffer` -/
def busWriteBuf (w : World) (reg : Nat) (data : List UInt8) : Except Code Unit × World :=
  let (w, code) := w.pre
  match code with
  | some c => (.error c, { w with bus := .wb reg data (.error c) :: w.bus })
  | none => (.ok (), { w with chip := w.chip.writeN reg data, bus := .wb reg data (.ok ()) :: w.bus })
end World

/-- the result of one shadow-layer call: its C return value, or undefined behaviour -/
inductive Step (α : Type)
  | ok (r : Except Code α) (w : World)
  | ub (u : UB)

namespace Shadow
/-- a plain bus read of `n` registers -/
def busStep (w : World) (reg n : Nat) : Step UInt32 :=
  let (r, w) := w.busRead reg n
  .ok r w

/-- the fill after a successful multi-byte read (l.134-137 with the fixes) -/
def sreadFill (w1 : World) (reg n : Nat) (v : UInt32) : Step UInt32 :=
  if reg + n > w1.cache.size then .ub .oobShadow
  else .ok (.ok v) { w1 with cache := w1.cache.store reg ((List.range n).map (byteOf v n)) }

def sreadMiss (w : World) (reg n : Nat) : Step UInt32 :=
  match w.busRead reg n with
  | (.error c, w1) => .ok (.error c) w1
  | (.ok v, w1) => sreadFill w1 reg n v

/-- number of `sync` entries the hit-test loop inspects: the cached prefix plus the first miss -/
def probeEnd (k n : Nat) : Nat := if k < n then k + 1 else k

/-- `sx127x_shadow_spi_read_registers` (l.107) -/
def sread (cached : Bool) (w : World) (reg n : Nat) : Step UInt32 :=
  if !cached then busStep w reg n else
  if reg ≥ w.cache.size then .ub .oobShadow else
  if w.cache.isIgnore reg then busStep w reg n else
  -- the loop reads sync[reg+i] for i < n until the first miss
  if reg + probeEnd (w.cache.prefixLen reg n) n > w.cache.size then .ub .oobShadow else
  if w.cache.prefixLen reg n = n then .ok (.ok (be32 (w.cache.vals.rds reg n))) w else
  sreadMiss w reg n

/-- a plain single-register bus read -/
def busStep1 (w : World) (reg : Nat) : Step UInt8 :=
  let (r, w) := w.busRead reg 1
  .ok (r.map UInt32.toUInt8) w

def rreadMiss (w : World) (reg : Nat) : Step UInt8 :=
  match w.busRead reg 1 with
  | (.error c, w1) => .ok (.error c) w1
  | (.ok v, w1) => .ok (.ok v.toUInt8) { w1 with cache := { vals := w1.cache.vals.wr reg v.toUInt8, sync := w1.cache.sync.wr reg (UInt8.ofNat Gen.SHADOW_CACHED) } }

/-- `sx127x_read_register` (l.174) -/
def rread (cached : Bool) (w : World) (reg : Nat) : Step UInt8 :=
  if !cached then busStep1 w reg else
  if reg ≥ w.cache.size then .ub .oobShadow else
  if w.cache.isIgnore reg then busStep1 w reg else
  if w.cache.isCached reg then .ok (.ok (w.cache.vals.rd reg)) w else
  rreadMiss w reg

/-- what `sx127x_shadow_spi_write_register` does to the cache after a successful transfer -/
def swriteStore (w1 : World) (reg : Nat) (data : List UInt8) : Step Unit :=
  let k := if reg = Gen.REGOPMODE then w1.cache.dropPage else w1.cache
  if reg + data.length > k.size then .ub .oobShadow else
  .ok (.ok ()) { w1 with cache := k.store reg data }

/-- `sx127x_shadow_spi_write_register` (l.146, with the page invalidation) -/
def swrite (cached : Bool) (w : World) (reg : Nat) (data : List UInt8) : Step Unit :=
  match w.busWrite reg data with
  | (.error c, w1) => .ok (.error c) w1
  | (.ok (), w1) => if !cached then .ok (.ok ()) w1 else swriteStore w1 reg data

def bwriteStore (w1 : World) (reg : Nat) (data : List UInt8) : Step Unit :=
  if reg = Gen.REGFIFO then .ok (.ok ()) w1 else
  if reg + data.length > w1.cache.size then .ub .oobShadow else
  .ok (.ok ()) { w1 with cache := w1.cache.store reg data }

/-- `sx127x_shadow_spi_write_buffer` (l.158) -/
def bwrite (cached : Bool) (w : World) (reg : Nat) (data : List UInt8) : Step Unit :=
  match w.busWriteBuf reg data with
  | (.error c, w1) => .ok (.error c) w1
  | (.ok (), w1) => if !cached then .ok (.ok ()) w1 else bwriteStore w1 reg data
end Shadow

namespace Outcome
def world : Outcome α → World
  | .done _ w => w
  | .ub _ w => w
end Outcome

/-- run a program; `onCb` says what happens at a callback node (logging, the application's
    reaction) and yields the handle as the application leaves it -/
def execG (cached : Bool) (onCb : CbEvent → Handle → World → Outcome Handle) : Prog α → World → Outcome α
  | .ret a, w => .done a w
  | .ub u, w => .ub u w
  | .sread reg n k, w =>
    match Shadow.sread cached w reg n with
    | .ok r w => execG cached onCb (k r) w
    | .ub u => .ub u w
  | .rread reg k, w =>
    match Shadow.rread cached w reg with
    | .ok r w => execG cached onCb (k r) w
    | .ub u => .ub u w
  | .swrite reg d k, w =>
    match Shadow.swrite cached w reg d with
    | .ok r w => execG cached onCb (k r) w
    | .ub u => .ub u w
  | .bwrite reg d k, w =>
    match Shadow.bwrite cached w reg d with
    | .ok r w => execG cached onCb (k r) w
    | .ub u => .ub u w
  | .bread reg n k, w =>
    let (r, w) := w.busReadBuf reg n
    execG cached onCb (k r) w
  | .rawbread reg n k, w =>
    let (r, w) := w.busReadBuf reg n
    execG cached onCb (k r) w
  | .callback e h k, w =>
    match onCb e h w with
    | .done h' w' => execG cached onCb (k h') w'
    | .ub u w' => .ub u w'

/-- a callback without application reaction: it is only logged -/
def logCb (e : CbEvent) (h : Handle) (w : World) : Outcome Handle :=
  .done h { w with cbs := { ev := e } :: w.cbs }

/-- run a program in which callbacks (if any) have no application reaction -/
def exec0 (cached : Bool) (p : Prog α) (w : World) : Outcome α := execG cached logCb p w

/-- What the application does inside a callback: at most one API call, given as a program on the
    handle plus the text the trace shows for it. -/
structure Reaction where
  run : Handle → Prog (Except Code Out × Handle)

structure Cfg where
  cached : Bool := true
  onRx : Option Reaction := none
  onTx : Option Reaction := none
  onCad : Option Reaction := none

def Cfg.reactionFor (cfg : Cfg) : CbEvent → Option Reaction
  | .rx .. => cfg.onRx
  | .tx => cfg.onTx
  | .cad _ => cfg.onCad

/-- on a callback the application's reaction (an API call, which itself invokes no callback)
    runs to completion before the handler continues -/
def Cfg.onCb (cfg : Cfg) (e : CbEvent) (h : Handle) (w : World) : Outcome Handle :=
  match cfg.reactionFor e with
  | none => logCb e h w
  | some re =>
    match exec0 cfg.cached (re.run h) w with
    | .done (r, h') w' => .done h' { w' with cbs := { ev := e, reaction := some r } :: w'.cbs }
    | .ub u w' => .ub u w'

def exec (cfg : Cfg) (p : Prog α) (w : World) : Outcome α := execG cfg.cached cfg.onCb p w

end Sx
