import Sx.Basic
/-
  The chip model: what an SX1276/77/78/79 does at the SPI boundary, as far as the properties
  need it (DESIGN.md section 4).  It is an *assumption* (trusted base), written from the
  datasheet, deliberately not from the driver.  Addresses and bit positions here are datasheet
  literals, never `Sx.Gen` constants.  harness/sxh.c contains a second implementation of the same
  text; the two are compared on every correspondence run.
-/
namespace Sx

structure Chip where
  shared : Mem := Mem.zeros 128     -- 0x01..0x0c and 0x40..0x7f (indexed by address)
  lora : Mem := Mem.zeros 128       -- LoRa page, 0x0d..0x3f
  fsk : Mem := Mem.zeros 128        -- FSK/OOK page, 0x0d..0x3f
  buf : Mem := Mem.zeros 256        -- LoRa data buffer
  fifo : List UInt8 := []           -- FSK/OOK FIFO, oldest first, capacity 64
  air : List UInt8 := []            -- bytes shifted out by the FSK/OOK modulator, oldest first
  underflow : Nat := 0              -- FIFO read (SPI or modulator) while empty
  overflow : Nat := 0               -- FIFO write (SPI or demodulator) while full
  deriving DecidableEq, Repr, Inhabited

namespace Chip

/-- LoRa page selected: LongRangeMode set and AccessSharedReg clear -/
def isLora (c : Chip) : Bool :=
  (c.shared.rd 1 &&& 0x80 != 0) && (c.shared.rd 1 &&& 0x40 == 0)

def inPage (a : Nat) : Bool := 0x0d ≤ a && a ≤ 0x3f

/-- the stored byte behind address `a` (1..0x7f) in the currently selected page -/
def cell (c : Chip) (a : Nat) : UInt8 :=
  if inPage a then (if c.isLora then c.lora.rd a else c.fsk.rd a) else c.shared.rd a

def setCell (c : Chip) (a : Nat) (v : UInt8) : Chip :=
  if inPage a then (if c.isLora then { c with lora := c.lora.wr a v } else { c with fsk := c.fsk.wr a v })
  else { c with shared := c.shared.wr a v }

/-- RegIrqFlags2 (FSK 0x3f) as read: FifoFull/FifoEmpty/FifoLevel are derived from the FIFO -/
def flags2 (c : Chip) : UInt8 :=
  let v := c.fsk.rd 0x3f &&& 0x1f
  let thr := (c.fsk.rd 0x35 &&& 0x3f).toNat
  let v := if c.fifo.length ≥ 64 then v ||| 0x80 else v
  let v := if c.fifo.length = 0 then v ||| 0x40 else v
  if c.fifo.length > thr then v ||| 0x20 else v

/-- the value a register read at `a ≠ 0` returns (no side effect) -/
def peek (c : Chip) (a : Nat) : UInt8 :=
  if a = 0x3f ∧ !c.isLora then c.flags2 else c.cell a

/-- flush the FSK FIFO; PayloadReady and CrcOk are cleared when the FIFO is empty -/
def fifoFlush (c : Chip) : Chip :=
  { c with fifo := [], fsk := c.fsk.wr 0x3f (c.fsk.rd 0x3f &&& 0xf9) }

/-- one byte read at address `a` (after masking to 7 bits) -/
def read (c : Chip) (a : Nat) : UInt8 × Chip :=
  let a := a % 128
  if a = 0 then
    if c.isLora then
      let p := c.lora.rd 0x0d
      (c.buf.rd p.toNat, { c with lora := c.lora.wr 0x0d (p + 1) })
    else
      match c.fifo with
      | [] => (0, { c with underflow := c.underflow + 1 })
      | v :: rest =>
        let c' := { c with fifo := rest }
        (v, if rest.isEmpty then { c' with fsk := c'.fsk.wr 0x3f (c'.fsk.rd 0x3f &&& 0xf9) } else c')
  else (c.peek a, c)

/-- one byte written at address `a` -/
def write (c : Chip) (a : Nat) (v : UInt8) : Chip :=
  let a := a % 128
  if a = 0 then
    if c.isLora then
      let p := c.lora.rd 0x0d
      { c with buf := c.buf.wr p.toNat v, lora := c.lora.wr 0x0d (p + 1) }
    else if c.fifo.length ≥ 64 then
      { c with overflow := c.overflow + 1, fsk := c.fsk.wr 0x3f (c.fsk.rd 0x3f ||| 0x10) }
    else { c with fifo := c.fifo ++ [v] }
  else if c.isLora ∧ a = 0x12 then
    { c with lora := c.lora.wr 0x12 (c.lora.rd 0x12 &&& ~~~ v) }
  else if !c.isLora ∧ a = 0x3e then
    { c with fsk := c.fsk.wr 0x3e (c.fsk.rd 0x3e &&& ~~~ (v &&& 0x0b)) }
  else if !c.isLora ∧ a = 0x3f then
    let c1 := if v &&& 0x10 ≠ 0 then fifoFlush { c with fsk := c.fsk.wr 0x3f (c.fsk.rd 0x3f &&& 0xef) } else c
    if v &&& 0x01 ≠ 0 then { c1 with fsk := c1.fsk.wr 0x3f (c1.fsk.rd 0x3f &&& 0xfe) } else c1
  else c.setCell a v

/-- burst read: the address auto-increments, except that address 0 stays at the FIFO -/
def readN (c : Chip) (a : Nat) : Nat → List UInt8 × Chip
  | 0 => ([], c)
  | n + 1 =>
    let (v, c1) := c.read a
    let (vs, c2) := readN c1 (if a = 0 then 0 else a + 1) n
    (v :: vs, c2)

def writeN (c : Chip) (a : Nat) : List UInt8 → Chip
  | [] => c
  | v :: vs => writeN (c.write a v) (if a = 0 then 0 else a + 1) vs

/-- power-on state used by the scripts: version 0x12, FSK standby -/
def init : Chip := { shared := ((Mem.zeros 128).wr 0x42 0x12).wr 0x01 0x09 }

end Chip

/-- Environment events: what the radio side of the chip may do on its own. -/
inductive Env
  | rxByte (b : UInt8)                 -- FSK/OOK demodulator pushes a byte
  | rxEnd (crcOk : Bool)               -- end of an FSK/OOK packet
  | flag1 (mask : UInt8)               -- raise bits of RegIrqFlags1 (preamble, sync address, ...)
  | flag2 (mask : UInt8)               -- raise stored bits of RegIrqFlags2
  | txShift                            -- FSK/OOK modulator takes a byte
  | txSent                             -- PacketSent
  | loraRx (start : UInt8) (crcErr : Bool) (data : List UInt8)   -- LoRa packet stored, RxDone
  | loraFlags (mask : UInt8)           -- raise bits of LoRa RegIrqFlags
  | chip (page : Char) (a : Nat) (v : UInt8)   -- the chip changes one of its registers
  | buf (a : UInt8) (v : UInt8)
  | chipRand (seed : UInt32)           -- arbitrary register file (initial states)
  deriving Repr, Inhabited

def xorshift (x : UInt32) : UInt32 :=
  let x := x ^^^ (x <<< 13)
  let x := x ^^^ (x >>> 17)
  x ^^^ (x <<< 5)

/-- `n` pseudo-random bytes and the next generator state -/
def randBytes : Nat → UInt32 → List UInt8 × UInt32
  | 0, s => ([], s)
  | n + 1, s =>
    let s1 := xorshift s
    let (bs, s2) := randBytes n s1
    (s1.toUInt8 :: bs, s2)

/-- Addresses whose content the chip may change on its own or as a side effect of an access
    (datasheet access column `r`, `rc`, `wt`; FIFO pointer).  Written from the datasheet, not from
    the driver's never-cache list, which is the thing under test. -/
def volatileLora : List Nat :=
  [0x0d, 0x10, 0x12, 0x13, 0x14, 0x15, 0x16, 0x17, 0x18, 0x19, 0x1a, 0x1b, 0x1c, 0x25, 0x28, 0x29, 0x2a, 0x2c]
def volatileFsk : List Nat :=
  [0x0d, 0x11, 0x1a, 0x1b, 0x1c, 0x1d, 0x1e, 0x24, 0x36, 0x3b, 0x3c, 0x3e, 0x3f]
def volatileShared : List Nat := [0x00, 0x01, 0x5b]

/-- some page may change the content behind address `a` without a host write -/
def Vol (a : Nat) : Bool := volatileLora.contains a || volatileFsk.contains a || volatileShared.contains a

namespace Env
def apply (c : Chip) : Env → Chip
  | rxByte b =>
    if c.fifo.length ≥ 64 then
      { c with overflow := c.overflow + 1, fsk := c.fsk.wr 0x3f (c.fsk.rd 0x3f ||| 0x10) }
    else { c with fifo := c.fifo ++ [b] }
  | rxEnd crcOk =>
    let crcOn := c.fsk.rd 0x30 &&& 0x10 ≠ 0
    let autoClearOff := c.fsk.rd 0x30 &&& 0x08 ≠ 0
    if crcOn ∧ !crcOk ∧ !autoClearOff then c.fifoFlush
    else
      let f := c.fsk.rd 0x3f ||| 0x04
      let f := if crcOn ∧ crcOk then f ||| 0x02 else f &&& 0xfd
      { c with fsk := c.fsk.wr 0x3f f }
  | flag1 m => { c with fsk := c.fsk.wr 0x3e (c.fsk.rd 0x3e ||| m) }
  | flag2 m => { c with fsk := c.fsk.wr 0x3f (c.fsk.rd 0x3f ||| (m &&& 0x1f)) }
  | txShift =>
    match c.fifo with
    | [] => { c with underflow := c.underflow + 1 }
    | v :: rest => { c with fifo := rest, air := if c.air.length < 8192 then c.air ++ [v] else c.air }
  | txSent => { c with fsk := c.fsk.wr 0x3f (c.fsk.rd 0x3f ||| 0x08) }
  | loraRx start crcErr data =>
    let data := data.take 255
    let buf := (List.range data.length).foldl (fun b i => b.wr ((start.toNat + i) % 256) (data.getD i 0)) c.buf
    let l := c.lora.wr 0x10 start
    let l := l.wr 0x13 (UInt8.ofNat data.length)
    let l := l.wr 0x25 (start + UInt8.ofNat data.length)
    let l := l.wr 0x12 (l.rd 0x12 ||| 0x50 ||| (if crcErr then 0x20 else 0))
    { c with buf := buf, lora := l }
  | loraFlags m => { c with lora := c.lora.wr 0x12 (c.lora.rd 0x12 ||| m) }
  | chip page a v =>
    let a := a % 128
    if page = 's' then
      -- the chip never changes LongRangeMode / AccessSharedReg on its own: a change of
      -- RegOpMode by the chip affects the mode bits only
      if a = 1 then { c with shared := c.shared.wr 1 ((c.shared.rd 1 &&& 0xc0) ||| (v &&& 0x3f)) }
      else { c with shared := c.shared.wr a v }
    else if page = 'l' then { c with lora := c.lora.wr a v }
    else { c with fsk := c.fsk.wr a v }
  | buf a v => { c with buf := c.buf.wr a.toNat v }
  | chipRand seed =>
    let (s, g) := randBytes 128 (seed ||| 1)
    let (l, g) := randBytes 128 g
    let (f, g) := randBytes 128 g
    let (b, _) := randBytes 256 g
    { c with shared := Mem.wr s 0x42 0x12, lora := l, fsk := f, buf := b }

/-- events the radio side can produce while a session is running (`chipRand` and arbitrary
    register pokes only describe initial states) -/
def Admissible : Env → Bool
  | chip page a v =>
    let a := a % 128
    (page = 's' && volatileShared.contains a) || (page = 'l' && volatileLora.contains a && Chip.inPage a)
      || (page = 'f' && volatileFsk.contains a && Chip.inPage a)
  | chipRand _ => false
  | _ => true
end Env

end Sx
