import Sx.Gen.Tool
/-
  Model of the argument parser of debug_registers/main.c (`at_util_string2hex`) and of the
  format in which its README tells the user to print a register dump.  Core Lean only.
-/
namespace Sx.Tool

/-- value of a hexadecimal digit, as the three `if` branches of the C -/
def hexVal (c : Char) : Option UInt8 :=
  if '0' ≤ c ∧ c ≤ '9' then some (UInt8.ofNat (c.toNat - '0'.toNat))
  else if 'A' ≤ c ∧ c ≤ 'F' then some (UInt8.ofNat (c.toNat - 'A'.toNat + 10))
  else if 'a' ≤ c ∧ c ≤ 'f' then some (UInt8.ofNat (c.toNat - 'a'.toNat + 10))
  else none

inductive Res
  | invalid                      -- `return -1`
  | oob                          -- a store outside the allocation (undefined behaviour)
  | ok (bytes : List UInt8)      -- `result[0 .. output_length)`
  deriving DecidableEq, Repr

/-- the second loop of `at_util_string2hex`: `buf` is `result[0..j)`, `cap` the size of the
    allocation, `cur`/`has` are `curByte`/`has_digits` -/
def scan (cap : Nat) : List Char → UInt8 → Bool → List UInt8 → Res
  | [], cur, has, buf =>
    if has then (if buf.length < cap then .ok (buf ++ [cur]) else .oob) else .ok buf
  | c :: r, cur, has, buf =>
    if c = ' ' ∨ c = ':' then scan cap r cur has buf
    else if c = ',' then (if buf.length < cap then scan cap r 0 false (buf ++ [cur]) else .oob)
    else if c = '0' ∧ r.head? = some 'x' then scan cap r.tail cur has buf
    else match hexVal c with
      | some d => scan cap r (cur * 16 + d) true buf
      | none => .invalid
termination_by l => l.length
decreasing_by
  all_goals simp_wf
  all_goals (try omega)

/-- `at_util_string2hex`: the allocation holds one byte per `','` plus one -/
def parse (s : List Char) : Res := scan (1 + s.count ',') s 0 false []

/-! ### the README's print loop: `printf("0x%02x", registers[i])` separated by `","` -/

def hexDigit (n : Nat) : Char := "0123456789abcdef".toList.getD n '?'

def renderByte (b : UInt8) : List Char := ['0', 'x', hexDigit (b.toNat / 16), hexDigit (b.toNat % 16)]

def render : List UInt8 → List Char
  | [] => []
  | [b] => renderByte b
  | b :: b' :: r => renderByte b ++ ',' :: render (b' :: r)

/-- what `main` does with its argument -/
inductive MainOut
  | failure               -- EXIT_FAILURE before any decoder
  | ub                    -- a store outside the parser's allocation
  | lora (regs : List UInt8)
  | fsk (regs : List UInt8)
  deriving DecidableEq, Repr

/-- `main`: parse; refuse fewer values than the decoders index; pick the decoder by bit 7 of RegOpMode -/
def toolMain (arg : List Char) : MainOut :=
  match parse arg with
  | .invalid => .failure
  | .oob => .ub
  | .ok regs =>
    if regs.length < Gen.toolMinValues then .failure
    else if regs.getD 1 0 &&& 0x80 = 0x80 then .lora regs else .fsk regs

end Sx.Tool
