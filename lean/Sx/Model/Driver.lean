import Sx.Prog
import Sx.F
import Sx.Gen.Consts
import Sx.Model.Beacon
/-
  Hand-written executable model of src/sx127x.c: one definition per C function, same name
  (camel-cased), same order of shadow-layer calls.  Constants come from `Sx.Gen` (regenerated
  from the working tree on every run); mask literals are copied from the C text and are tied to
  it by the correspondence check.  Line numbers refer to src/sx127x.c.
-/
namespace Sx.Model
open Sx Sx.DM Sx.Gen

@[inline] def u8 (n : Nat) : UInt8 := UInt8.ofNat n
/-- value of a C `bool`/condition as the byte it selects -/
@[inline] def sel (c : Bool) (a b : UInt8) : UInt8 := if c then a else b

/-- `CHECK_MODULATION(device, m)` -/
def checkModulation (m : Nat) : DM Unit := do
  let h ← getH
  if h.activeModem ≠ m then fail SX127X_ERR_INVALID_STATE else pure ()

/-- `CHECK_FSK_OOK_MODULATION(device)` -/
def checkFskOok : DM Unit := do
  let h ← getH
  if h.activeModem ≠ SX127x_MODULATION_FSK ∧ h.activeModem ≠ SX127x_MODULATION_OOK
  then fail SX127X_ERR_INVALID_STATE else pure ()

/-- `sx127x_write_register` -/
def writeRegister (reg : Nat) (v : UInt8) : DM Unit := swrite reg [v]

/-- `sx127x_append_register` (l.200) -/
def appendRegister (reg : Nat) (value mask : UInt8) : DM Unit := do
  let previous ← rread reg
  swrite reg [(previous &&& mask) ||| value]

/-- `sx127x_lora_set_low_datarate_optimization` -/
def loraSetLowDatarateOptimization (enable : Bool) : DM Unit := do
  checkModulation SX127x_MODULATION_LORA
  appendRegister REGMODEMCONFIG3 (sel enable 0x08 0x00) 0xf7

/-- the `switch` of `sx127x_lora_get_bandwidth` -/
def bandwidthOfCode (c : UInt8) : Option Nat :=
  if c = 0 then some 7800 else if c = 1 then some 10400 else if c = 2 then some 15600
  else if c = 3 then some 20800 else if c = 4 then some 31250 else if c = 5 then some 41700
  else if c = 6 then some 62500 else if c = 7 then some 125000 else if c = 8 then some 250000
  else if c = 9 then some 500000 else none

/-- `sx127x_lora_get_bandwidth` -/
def loraGetBandwidth : DM Nat := do
  checkModulation SX127x_MODULATION_LORA
  let config ← rread REGMODEMCONFIG1
  match bandwidthOfCode (config >>> 4) with
  | some b => pure b
  | none => fail SX127X_ERR_INVALID_ARG

/-- `sx127x_reload_low_datarate_optimization` (after the fix: exact comparison) -/
def reloadLowDatarateOptimization : DM Unit := do
  let bandwidth ← loraGetBandwidth
  let sfReg ← rread REGMODEMCONFIG2
  let sf := (sfReg >>> 4).toNat
  loraSetLowDatarateOptimization (decide (1000 * 2 ^ sf > 16 * bandwidth))

/-- `sx127x_fsk_ook_read_fixed_packet_length` -/
def fskOokReadFixedPacketLength : DM UInt16 := do
  let v1 ← rread REGPACKETCONFIG2
  let v2 ← rread REGPAYLOADLENGTH_FSK
  pure ((((v1 &&& 0x07).toUInt16) <<< 8) + v2.toUInt16)

/-- `sx127x_fsk_ook_is_address_filtered` -/
def fskOokIsAddressFiltered : DM Bool := do
  let v ← rread REGPACKETCONFIG1
  let v := v &&& 0x06
  pure (v.toNat = SX127X_FILTER_NODE_ADDRESS ∨ v.toNat = SX127X_FILTER_NODE_AND_BROADCAST)

/-- the code with which a `void` C function "fails" when it returns early; never observed -/
def voidReturn : Code := 0xffff

/-- store one byte at `packet[idx]` (bounds-checked: C08) -/
def packetStore (idx : Nat) (v : UInt8) : DM Unit := do
  let h ← getH
  if idx < h.packet.length then setH { h with packet := h.packet.wr idx v } else ub .oobPacket

/-- `memcpy(packet + off, data, |data|)` (bounds-checked) -/
def packetCopy (off : Nat) (data : List UInt8) : DM Unit := do
  let h ← getH
  if off + data.length ≤ h.packet.length then setH { h with packet := h.packet.wrs off data }
  else ub .oobPacket

/-- the byte-wise drain loop of `read_payload_batch` (l.353-365): `do { read FIFO byte; store;
    read IrqFlags2 } while (FifoEmpty == 0)`.  Bounded only by the chip, hence fuel. -/
def drainLoop : Nat → DM Unit
  | 0 => ub .fuel
  | fuel + 1 => do
    let h ← getH
    if h.received.toNat ≥ h.packet.length then fail SX127X_ERR_INVALID_ARG else
    let value ← rread REGFIFO
    packetStore h.received.toNat value
    modH fun h => { h with received := h.received + 1 }
    let irq ← rread REGIRQFLAGS2
    if irq &&& u8 SX127X_FSK_IRQ_FIFO_EMPTY = 0 then drainLoop fuel else pure ()

/-- first half of `sx127x_fsk_ook_read_payload_batch`: learn the length.  Configuration registers
    are read first, then length byte and node id leave the FIFO in one transfer, and only then is
    the handle updated: a failing transfer leaves no partial state.  Returns how many FIFO bytes
    the header took (`remaining_fifo -= header_length`); `none` = unknown packet format
    (`return SX127X_OK` from the whole function). -/
def readPayloadHeader : DM (Option Nat) := do
  let h ← getH
  if h.expected ≠ 0 then pure (some 0) else
  let af ← fskOokIsAddressFiltered
  if h.format = SX127X_FIXED then do
    let len ← fskOokReadFixedPacketLength
    let n : Nat := if af then 1 else 0
    if n > 0 then do
      let _ ← bread REGFIFO n
      pure ()
    else pure ()
    let len := if af ∧ len > 0 then len - 1 else len
    modH fun h => { h with expected := len }
    pure (some n)
  else if h.format = SX127X_VARIABLE then do
    let n : Nat := if af then 2 else 1
    let hdr ← bread REGFIFO n
    let len : UInt16 := (hdr.getD 0 0).toUInt16
    let len := if af ∧ len > 0 then len - 1 else len
    modH fun h => { h with expected := len }
    pure (some n)
  else pure none

/-- `sx127x_fsk_ook_read_payload_batch`: fails with the status of the transfer that failed -/
def fskOokReadPayloadBatch (fuel : Nat) (readBatch : Bool) : DM Unit := do
  let hdr ← readPayloadHeader
  match hdr with
  | none => pure ()
  | some consumed => do
  let remaining : Nat := FIFO_SIZE_FSK - consumed     -- `uint8_t remaining_fifo`
  let h ← getH
  if h.expected = h.received then pure () else
  -- a packet that does not fit into the buffer is not read
  if h.expected.toNat > h.packet.length then fail SX127X_ERR_INVALID_ARG else
  let batch : Nat := HALF_MAX_FIFO_THRESHOLD - 1
  if readBatch then
    -- FIFO level: full batches only; the tail of the packet is left for payload-ready
    if h.received.toNat + batch < h.expected.toNat then do
      -- destination range is checked before the transfer, as the C writes through the pointer
      if h.received.toNat + batch ≤ h.packet.length then pure () else ub .oobPacket
      let data ← bread REGFIFO batch
      packetCopy h.received.toNat data
      modH fun h => { h with received := h.received + UInt16.ofNat batch }
    else pure ()
  else if h.received = 0 ∧ h.expected.toNat ≤ remaining then do
    if h.expected.toNat ≤ h.packet.length then pure () else ub .oobPacket
    let data ← bread REGFIFO h.expected.toNat
    packetCopy 0 data
    modH fun h => { h with received := h.expected }
  else drainLoop fuel

/-- C integer division truncates toward zero; `-value / 2` with `value ≥ 0` -/
def fskRssiOf (value : UInt8) : Int := -(((value.toNat) / 2 : Nat) : Int)

/-- `sx127x_fsk_ook_get_rssi` -/
def fskOokGetRssi : DM Unit := do
  let value ← rread REGRSSIVALUE_FSK
  modH fun h => { h with rssiAvail := true, rssi := fskRssiOf value }

/-- `sx127x_fsk_ook_reset_state` -/
def resetState (h : Handle) : Handle :=
  { h with expected := 0, received := 0, rssi := 0, rssiAvail := false }

/-- deliver `packet[0..len)` to the receive callback, if one is registered -/
def rxCallback : DM Unit := do
  let h ← getH
  if h.rxCb then cb (.rx (h.packet.take h.expected.toNat) h.expected.toNat) else pure ()

def txCallback : DM Unit := do
  let h ← getH
  if h.txCb then cb .tx else pure ()

/-- `sx127x_fsk_ook_handle_interrupt` (a `void` function) -/
def fskOokHandleInterrupt (fuel : Nat) : DM Unit := do
  let irq ← rread REGIRQFLAGS2
  swrite REGIRQFLAGS2 [irq]
  let h ← getH
  if irq &&& u8 SX127X_FSK_IRQ_PAYLOAD_READY ≠ 0 then do
    if h.crcType ≠ SX127X_CRC_NONE ∧ irq &&& u8 SX127X_FSK_IRQ_CRC_OK ≠ u8 SX127X_FSK_IRQ_CRC_OK then
      swrite REGIRQFLAGS2 [u8 SX127X_FSK_IRQ_FIFO_OVERRUN]
    else do
      let r ← attempt (fskOokReadPayloadBatch fuel false)
      match r with
      | .ok _ => rxCallback
      | .error _ =>
        -- the packet cannot be completed: drop what is left of it (if this write fails too, the
        -- handler returns with its state kept and the next invocation continues reading)
        swrite REGIRQFLAGS2 [u8 SX127X_FSK_IRQ_FIFO_OVERRUN]
    modH resetState
  else if irq &&& u8 SX127X_FSK_IRQ_PACKET_SENT ≠ 0 then do
    modH resetState
    txCallback
  else if h.opmod = SX127x_MODE_TX then do
    if irq &&& u8 SX127X_FSK_IRQ_FIFO_EMPTY ≠ 0 then do
      modH resetState
      txCallback
    else if irq &&& u8 SX127X_FSK_IRQ_FIFO_LEVEL = 0 ∧ irq &&& u8 SX127X_FSK_IRQ_FIFO_FULL = 0 then do
      -- `expected - sent` is computed in `int` after promotion, so it may be negative
      let diff : Int := (h.expected.toNat : Int) - (h.received.toNat : Int)
      let toSend : UInt8 := if diff > (HALF_MAX_FIFO_THRESHOLD - 1 : Nat) then u8 (HALF_MAX_FIFO_THRESHOLD - 1)
                            else UInt8.ofNat (diff % 256).toNat
      if toSend = 0 then pure () else
      -- never read the frame beyond the buffer
      if h.received.toNat + toSend.toNat > h.packet.length then pure () else do
        if h.received.toNat + toSend.toNat ≤ h.packet.length then pure () else ub .oobPacket
        bwrite REGFIFO (h.packet.rds h.received.toNat toSend.toNat)
        modH fun h => { h with received := h.received + toSend.toUInt16 }
    else pure ()
  else if h.opmod = SX127x_MODE_RX_CONT ∨ h.opmod = SX127x_MODE_RX_SINGLE then do
    if irq &&& u8 SX127X_FSK_IRQ_FIFO_LEVEL ≠ 0 ∧ irq &&& u8 SX127X_FSK_IRQ_FIFO_FULL = 0 then do
      let _ ← attempt (fskOokReadPayloadBatch fuel true)
      pure ()
    else do
      let irq1 ← rread REGIRQFLAGS1
      swrite REGIRQFLAGS1 [irq1]
      let h ← getH
      if irq1 &&& u8 SX127X_FSK_IRQ_PREAMBLE_DETECT ≠ 0 ∧ !h.rssiAvail then
        fskOokGetRssi
      else if irq1 &&& u8 SX127X_FSK_IRQ_SYNC_ADDRESS_MATCH ≠ 0 ∧ !h.rssiAvail then
        fskOokGetRssi
      else pure ()
  else pure ()

/-- `sx127x_lora_rx_read_payload` -/
def loraRxReadPayload : DM Unit := do
  checkModulation SX127x_MODULATION_LORA
  let h ← getH
  let length : UInt8 ← (if h.expected = 0 then rread REGRXNBBYTES else pure h.expected.toUInt8)
  -- a packet that does not fit into the buffer is not read
  if length.toNat > h.packet.length then fail SX127X_ERR_INVALID_ARG else
  modH fun h => { h with expected := length.toUInt16 }
  let current ← rread REGFIFORXCURRENTADDR
  swrite REGFIFOADDRPTR [current]
  let h ← getH
  if length.toNat ≤ h.packet.length then pure () else ub .oobPacket
  let data ← bread REGFIFO length.toNat
  packetCopy 0 data

/-- `(frequency << 19) / 32e6f` truncated to `uint64_t`, then split into three bytes (l.609-610) -/
def frfOf (frequency : UInt64) : Option (List UInt8) :=
  let shifted : UInt64 := frequency <<< 19
  let q := F.div b32 (F.ofNat b32 shifted.toNat) (F.ofBits32 SX127x_OSCILLATOR_FREQUENCY_bits)
  match F.toUInt 64 q with
  | some adj => some [u8 (adj / 65536), u8 (adj / 256), u8 adj]
  | none => none

/-- `sx127x_set_frequency` -/
def setFrequency (frequency : UInt64) : DM Unit :=
  match frfOf frequency with
  | some data => swrite REGFRFMSB data
  | none => ub .castRange

/-- `(uint64_t)(raw * 32e6f) >> 19` (l.618) -/
def freqOfRaw (raw : UInt32) : Option Nat :=
  let p := F.mul b32 (F.ofNat b32 raw.toNat) (F.ofBits32 SX127x_OSCILLATOR_FREQUENCY_bits)
  match F.toUInt 64 p with
  | some v => some (v / 2 ^ 19)
  | none => none

/-- `sx127x_get_frequency` -/
def getFrequency : DM Nat := do
  let raw ← sread REGFRFMSB 3
  match freqOfRaw raw with
  | some f => pure f
  | none => ub .castRange

/-- the receive branch of the LoRa handler up to the callback: read the packet; if that fails
    the configured length is restored and the handler returns (l.515-522) -/
def loraReadGuard (configured : UInt16) : DM Unit := do
  let r ← attempt loraRxReadPayload
  match r with
  | .error c => do
    modH fun h' => { h' with expected := configured }
    fail c
  | .ok () => pure ()

/-- `sx127x_lora_handle_interrupt` (a `void` function) -/
def loraHandleInterrupt : DM Unit := do
  let value ← rread REGIRQFLAGS
  swrite REGIRQFLAGS [value]
  let h ← getH
  if value &&& u8 SX127x_IRQ_FLAG_CADDONE ≠ 0 then
    (if h.cadCb then cb (.cad (value &&& u8 SX127x_IRQ_FLAG_CAD_DETECTED).toNat) else pure ())
  else if value &&& u8 SX127x_IRQ_FLAG_PAYLOAD_CRC_ERROR ≠ 0 then
    modH fun h => { h with curFreq := 0 }
  else if value &&& u8 SX127x_IRQ_FLAG_RXDONE ≠ 0 then do
    loraReadGuard h.expected
    rxCallback
    modH fun h => { h with expected := 0, curFreq := 0 }
  else if value &&& u8 SX127x_IRQ_FLAG_TXDONE ≠ 0 then do
    modH fun h => { h with curFreq := 0 }
    txCallback
  else if value &&& u8 SX127x_IRQ_FLAG_FHSSCHANGECHANNEL ≠ 0 then do
    match h.freqs with
    | none => pure ()
    | some list => do
      let idx : UInt8 := if h.curFreq ≥ h.freqLen then 0 else h.curFreq
      modH fun h => { h with curFreq := idx }
      match list[idx.toNat]? with
      | none => ub .oobCaller
      | some f => do
        setFrequency f
        modH fun h => { h with curFreq := idx + 1 }
  else pure ()

/-- `sx127x_handle_interrupt` -/
def handleInterrupt (fuel : Nat) : DM Unit := do
  let h ← getH
  if h.activeModem = SX127x_MODULATION_LORA then loraHandleInterrupt
  else if h.activeModem = SX127x_MODULATION_FSK ∨ h.activeModem = SX127x_MODULATION_OOK then
    fskOokHandleInterrupt fuel
  else pure ()

/-- the handle `sx127x_create` leaves behind (l.527, 554-560); `cap` = CONFIG_SX127X_MAX_PACKET_SIZE -/
def freshHandle (cap : Nat) : Handle :=
  { activeModem := SX127x_MODULATION_LORA, opmod := SX127x_MODE_STANDBY, implicitHeader := false,
    rxCb := false, txCb := false, cadCb := false, packet := Mem.zeros cap, expected := 0, received := 0,
    rssiAvail := false, rssi := 0, format := SX127X_VARIABLE, crcType := SX127X_CRC_CCITT,
    freqs := none, freqLen := 0, curFreq := 0 }

/-- the handle after `memset(result, 0, ...)` when `sx127x_create` fails before setting defaults -/
def zeroHandle (cap : Nat) : Handle :=
  { activeModem := 0, opmod := 0, packet := Mem.zeros cap }

/-- `sx127x_create` after the memset and the installation of the never-cache list (which the
    interpreter performs: see `Cache.fresh`) -/
def create (cap : Nat) : DM Unit := do
  setH (zeroHandle cap)
  let version ← rread REGVERSION
  if version ≠ u8 SX127x_VERSION then fail SX127X_ERR_INVALID_VERSION else
  setH (freshHandle cap)

/-- `sx127x_set_active_modem`: the packet in progress belongs to the modem that is left -/
def setActiveModem (opmod modulation : Nat) (h : Handle) : Handle :=
  let h := if (h.activeModem = SX127x_MODULATION_LORA) ≠ (modulation = SX127x_MODULATION_LORA) then resetState h else h
  -- an FSK/OOK receiver that is started begins with a new packet
  let h := if modulation ≠ SX127x_MODULATION_LORA ∧ (opmod = SX127x_MODE_RX_CONT ∨ opmod = SX127x_MODE_RX_SINGLE) ∧ h.opmod ≠ opmod
           then resetState h else h
  { h with activeModem := modulation, opmod := opmod }

/-- `sx127x_set_opmod` -/
def setOpmod (opmod modulation : Nat) : DM Unit := do
  let finish : DM Unit := do
    swrite REGOPMODE [u8 opmod ||| u8 modulation]
    modH (setActiveModem opmod modulation)
  if modulation = SX127x_MODULATION_LORA then do
    if opmod = SX127x_MODE_RX_CONT ∨ opmod = SX127x_MODE_RX_SINGLE then
      swrite REGDIOMAPPING1 [u8 (SX127x_DIO0_RX_DONE ||| SX127x_DIO1_RXTIMEOUT ||| SX127x_DIO2_FHSS_CHANGE_CHANNEL ||| SX127x_DIO3_CAD_DONE)]
    else if opmod = SX127x_MODE_TX then
      swrite REGDIOMAPPING1 [u8 (SX127x_DIO0_TX_DONE ||| SX127x_DIO1_FHSS_CHANGE_CHANNEL ||| SX127x_DIO2_FHSS_CHANGE_CHANNEL ||| SX127x_DIO3_CAD_DONE)]
    else if opmod = SX127x_MODE_CAD then
      appendRegister REGDIOMAPPING1 (u8 SX127x_DIO0_CAD_DONE) 0x3f
    else pure ()
    finish
  else if modulation = SX127x_MODULATION_FSK ∨ modulation = SX127x_MODULATION_OOK then do
    if opmod = SX127x_MODE_RX_CONT ∨ opmod = SX127x_MODE_RX_SINGLE then do
      appendRegister REGDIOMAPPING1 (u8 (SX127x_FSK_DIO0_PAYLOAD_READY ||| SX127x_FSK_DIO1_FIFO_LEVEL ||| SX127x_FSK_DIO2_SYNCADDRESS)) 0x03
      appendRegister REGDIOMAPPING2 (u8 (SX127x_FSK_DIO4_PREAMBLE_DETECT ||| 0x01)) 0x3e
      swrite REGFIFOTHRESH [u8 HALF_MAX_FIFO_THRESHOLD]
      finish
    else if opmod = SX127x_MODE_TX then do
      swrite REGDIOMAPPING1 [u8 (SX127x_FSK_DIO0_PACKET_SENT ||| SX127x_FSK_DIO1_FIFO_LEVEL ||| SX127x_FSK_DIO2_FIFO_FULL ||| SX127x_FSK_DIO3_FIFO_EMPTY)]
      swrite REGFIFOTHRESH [u8 (TX_START_CONDITION_FIFO_EMPTY ||| HALF_MAX_FIFO_THRESHOLD)]
      swrite REGSEQCONFIG1 [0x90]
      modH (setActiveModem opmod modulation)
    else finish
  else fail SX127X_ERR_INVALID_ARG

/-- `sx127x_lora_reset_fifo` -/
def loraResetFifo : DM Unit := do
  checkModulation SX127x_MODULATION_LORA
  swrite REGFIFOTXBASEADDR [u8 FIFO_TX_BASE_ADDR, u8 FIFO_RX_BASE_ADDR]

/-- `sx127x_rx_set_lna_gain` -/
def rxSetLnaGain (gain : Nat) : DM Unit := do
  let h ← getH
  if h.activeModem = SX127x_MODULATION_LORA then
    if gain = SX127x_LNA_GAIN_AUTO then
      appendRegister REGMODEMCONFIG3 (u8 SX127x_REG_MODEM_CONFIG_3_AGC_ON) 0xfb
    else do
      appendRegister REGMODEMCONFIG3 (u8 SX127x_REG_MODEM_CONFIG_3_AGC_OFF) 0xfb
      appendRegister REGLNA (u8 gain) 0x1f
  else if h.activeModem = SX127x_MODULATION_FSK ∨ h.activeModem = SX127x_MODULATION_OOK then
    if gain = SX127x_LNA_GAIN_AUTO then
      appendRegister REGRXCONFIG 0x08 0xf7
    else do
      appendRegister REGRXCONFIG 0x00 0xf7
      appendRegister REGLNA (u8 gain) 0x1f
  else fail SX127X_ERR_INVALID_ARG

/-- `sx127x_rx_set_lna_boost_hf` -/
def rxSetLnaBoostHf (enable : Bool) : DM Unit :=
  appendRegister REGLNA (sel enable 0x03 0x00) 0xfc

/-- `sx127x_lora_set_bandwidth` -/
def loraSetBandwidth (bandwidth : Nat) : DM Unit := do
  checkModulation SX127x_MODULATION_LORA
  if bandwidth % 16 ≠ 0 ∨ bandwidth > SX127x_BW_500000 then fail SX127X_ERR_INVALID_ARG else do
  appendRegister REGMODEMCONFIG1 (u8 bandwidth) 0x0f
  reloadLowDatarateOptimization

/-- `sx127x_lora_set_modem_config_2` -/
def loraSetModemConfig2 (sf : Nat) : DM Unit := do
  checkModulation SX127x_MODULATION_LORA
  let h ← getH
  if sf = SX127x_SF_6 ∧ !h.implicitHeader then fail SX127X_ERR_INVALID_ARG else do
  let _ ← loraGetBandwidth
  let opt : UInt8 := if sf = SX127x_SF_6 then 0xc5 else 0xc3
  let thr : UInt8 := if sf = SX127x_SF_6 then 0x0c else 0x0a
  swrite REGDETECTOPTIMIZE [opt]
  swrite REGDETECTIONTHRESHOLD [thr]
  appendRegister REGMODEMCONFIG2 (u8 sf) 0x0f
  reloadLowDatarateOptimization

/-- `sx127x_lora_set_syncword` -/
def loraSetSyncword (v : UInt8) : DM Unit := do
  checkModulation SX127x_MODULATION_LORA
  swrite REGSYNCWORD [v]

/-- `sx127x_set_preamble_length` -/
def setPreambleLength (v : UInt16) : DM Unit := do
  let data := [(v >>> 8).toUInt8, v.toUInt8]
  let h ← getH
  if h.activeModem = SX127x_MODULATION_LORA then swrite REGPREAMBLEMSB data
  else if h.activeModem = SX127x_MODULATION_FSK ∨ h.activeModem = SX127x_MODULATION_OOK then
    swrite REGPREAMBLEMSB_FSK data
  else fail SX127X_ERR_INVALID_ARG

/-- `sx127x_lora_set_implicit_header`; `none` = NULL header -/
def loraSetImplicitHeader (header : Option (UInt8 × Bool × Nat)) : DM Unit := do
  checkModulation SX127x_MODULATION_LORA
  match header with
  -- the handle follows the chip: it is updated only when every transfer succeeded
  | none => do
    appendRegister REGMODEMCONFIG1 (u8 SX127x_HEADER_MODE_EXPLICIT) 0xfe
    modH fun h => { h with expected := 0, implicitHeader := false }
  | some (length, enableCrc, codingRate) => do
    appendRegister REGMODEMCONFIG1 (u8 (SX127x_HEADER_MODE_IMPLICIT ||| codingRate)) 0xf0
    swrite REGPAYLOADLENGTH [length]
    appendRegister REGMODEMCONFIG2 (sel enableCrc 0x04 0x00) 0xfb
    modH fun h => { h with expected := length.toUInt16, implicitHeader := true }

/-- `sx127x_lora_set_frequency_hopping`; `none` = NULL list -/
def loraSetFrequencyHopping (period : UInt8) (freqs : Option (List UInt64)) (len : UInt8) : DM Unit := do
  checkModulation SX127x_MODULATION_LORA
  match freqs with
  | none => fail SX127X_ERR_INVALID_ARG
  | some l =>
    if len = 0 then fail SX127X_ERR_INVALID_ARG else do
    swrite REGHOPPERIOD [period]
    modH fun h => { h with freqs := some l, freqLen := len }

/-- `sx127x_lora_rx_get_packet_snr`: the SNR is `(int8_t) value * 0.25f`, exact -/
def snrOf (value : UInt8) : F :=
  let s : Int := if value.toNat ≥ 128 then (value.toNat : Int) - 256 else value.toNat
  F.mul b32 (F.ofInt b32 s) (f32 (1/4))

def loraRxGetPacketSnr : DM F := do
  checkModulation SX127x_MODULATION_LORA
  let value ← rread REGPKTSNRVALUE
  pure (snrOf value)

/-- conversion of `int + float` back to `int16_t` (l.742): float add, then truncation -/
def rssiRefine (rssi : Int) (snr : F) : Option Int :=
  F.toSInt 16 (F.add b32 (F.ofInt b32 rssi) snr)

/-- `sx127x_rx_get_packet_rssi`.  On `SX127X_ERR_NOT_FOUND` the out value 0 is still written;
    that case is reported through the error code and the harness prints the 0. -/
def rxGetPacketRssi : DM Int := do
  let h ← getH
  if h.activeModem = SX127x_MODULATION_LORA then do
    let value ← rread REGPKTRSSIVALUE
    let frequency ← getFrequency
    let rssi : Int := if frequency < RF_MID_BAND_THRESHOLD then (value.toNat : Int) - RSSI_OFFSET_LF_PORT
                      else (value.toNat : Int) - RSSI_OFFSET_HF_PORT
    let r ← attempt loraRxGetPacketSnr
    match r with
    | .ok snr =>
      if F.lt snr (.fin 0) then
        match rssiRefine rssi snr with
        | some v => pure v
        | none => ub .castRange
      else pure rssi
    | .error _ => pure rssi
  else if h.activeModem = SX127x_MODULATION_FSK ∨ h.activeModem = SX127x_MODULATION_OOK then do
    if !h.rssiAvail then fail SX127X_ERR_NOT_FOUND else do
    modH fun h => { h with rssi := 0, rssiAvail := false }
    pure h.rssi
  else fail SX127X_ERR_INVALID_ARG

/-- LoRa branch of the frequency-error decode (l.769-781): sign-magnitude of the 20-bit value,
    then `sign * (mag * FACTOR * bw / 500000.0f)` converted to `int32_t` -/
def loraFreqError (raw : UInt32) (bandwidth : Nat) : Option Int :=
  let neg := raw &&& 0x80000 ≠ 0
  let mag : UInt32 := if neg then ((~~~ raw) + 1) &&& 0xFFFFF else raw
  let t1 := F.mul b32 (F.ofNat b32 mag.toNat) (F.ofBits32 SX127x_FREQ_ERROR_FACTOR_bits)
  let t2 := F.mul b32 t1 (F.ofNat b32 bandwidth)
  let t3 := F.div b32 t2 (f32 500000)
  let sign : Int := if neg then -1 else 1
  -- `*result = (*result) * <float>`: int → float, multiply, convert back
  F.toSInt 32 (F.mul b32 (F.ofInt b32 sign) t3)

/-- FSK branch (l.783-794): `sign * FSTEP * mag` -/
def fskFreqError (raw : UInt32) : Option Int :=
  let neg := raw &&& 0x8000 ≠ 0
  let mag : UInt32 := if neg then ((~~~ raw) + 1) &&& 0xFFFF else raw
  let sign : Int := if neg then -1 else 1
  let t1 := F.mul b32 (F.ofInt b32 sign) (F.ofBits32 SX127x_FSTEP_bits)
  F.toSInt 32 (F.mul b32 t1 (F.ofNat b32 mag.toNat))

/-- `sx127x_rx_get_frequency_error` -/
def rxGetFrequencyError : DM Int := do
  let h ← getH
  if h.activeModem = SX127x_MODULATION_LORA then do
    let raw ← sread REGFEIMSB 3
    let bandwidth ← loraGetBandwidth
    match loraFreqError raw bandwidth with
    | some v => pure v
    | none => ub .castRange
  else if h.activeModem = SX127x_MODULATION_FSK ∨ h.activeModem = SX127x_MODULATION_OOK then do
    let raw ← sread REGAFCMSB 2
    match fskFreqError raw with
    | some v => pure v
    | none => ub .castRange
  else fail SX127X_ERR_INVALID_ARG

/-- `sx127x_dump_registers`: `output[0] = 0`, raw buffer read of 0x70 bytes from 0x01 -/
def dumpRegisters : DM (List UInt8) := do
  let data ← rawbread 0x01 (MAX_NUMBER_OF_REGISTERS - 1)
  pure (0 :: data)

/-- `sx127x_tx_set_ocp` -/
def txSetOcp (enable : Bool) (maxCurrent : UInt8) : DM Unit := do
  if maxCurrent < 45 then fail SX127X_ERR_INVALID_ARG else
  if !enable then swrite REGOCP [0x00] else
  let value : UInt8 :=
    if maxCurrent ≤ 120 then (maxCurrent - 45) / 5
    else if maxCurrent ≤ 240 then u8 ((maxCurrent.toNat + 30) / 10)
    else 27
  swrite REGOCP [value ||| 0x20]

/-- `sx127x_tx_set_pa_config`; `power` is a C `int` -/
def txSetPaConfig (pin : Nat) (power : Int) : DM Unit := do
  if pin = SX127x_PA_PIN_RFO ∧ (power < -4 ∨ power > 15) then fail SX127X_ERR_INVALID_ARG else
  if pin = SX127x_PA_PIN_BOOST ∧ (power < 2 ∨ power > 20 ∨ power = 18 ∨ power = 19) then fail SX127X_ERR_INVALID_ARG else
  let dac : UInt8 := if pin = SX127x_PA_PIN_BOOST ∧ power = 20 then u8 SX127x_HIGH_POWER_ON else u8 SX127x_HIGH_POWER_OFF
  swrite REGPADAC [dac]
  let maxCurrent : UInt8 :=
    if pin = SX127x_PA_PIN_BOOST then (if power = 20 then 120 else 87)
    else 45   -- 29 / 20 mA raised to the lowest limit the chip offers
  txSetOcp true maxCurrent
  -- `value` is computed in `int` and truncated to a byte
  let byteOfInt (i : Int) : UInt8 := UInt8.ofNat (i % 256).toNat
  let value : UInt8 :=
    if pin = SX127x_PA_PIN_RFO then
      (if power < 0 then (u8 SX127x_LOW_POWER ||| byteOfInt (power + 4)) else (u8 SX127x_MAX_POWER ||| byteOfInt power)) ||| u8 SX127x_PA_PIN_RFO
    else
      (if power = 20 then u8 SX127x_PA_PIN_BOOST ||| 0x0f else u8 SX127x_PA_PIN_BOOST ||| byteOfInt (power - 2))
  swrite REGPACONFIG [value]

/-- `sx127x_lora_tx_set_explicit_header`; `none` = NULL -/
def loraTxSetExplicitHeader (header : Option (Bool × Nat)) : DM Unit := do
  checkModulation SX127x_MODULATION_LORA
  match header with
  | none => fail SX127X_ERR_INVALID_ARG
  | some (enableCrc, codingRate) => do
    appendRegister REGMODEMCONFIG1 (u8 (codingRate ||| SX127x_HEADER_MODE_EXPLICIT)) 0xf0
    appendRegister REGMODEMCONFIG2 (sel enableCrc 0x04 0x00) 0xfb
    modH fun h => { h with implicitHeader := false, expected := 0 }

/-- `sx127x_lora_tx_set_for_transmission`; `data.length` is the `uint8_t data_length` -/
def loraTxSetForTransmission (data : List UInt8) : DM Unit := do
  checkModulation SX127x_MODULATION_LORA
  if data.length = 0 then fail SX127X_ERR_INVALID_ARG else do
  swrite REGFIFOADDRPTR [u8 FIFO_TX_BASE_ADDR]
  swrite REGPAYLOADLENGTH [u8 data.length]
  bwrite REGFIFO data

/-- `0.95f * ((float) err / (frequency / 1E6f))` -/
def ppmFloat (frequencyError : Int) (frequency : Nat) : F :=
  let fmhz := F.div b32 (F.ofNat b32 frequency) (f32 1000000)
  let ratio := F.div b32 (F.ofInt b32 frequencyError) fmhz
  F.mul b32 (f32 (95/100)) ratio

/-- `sx127x_lora_set_ppm_offset` (after the fixes: gated, signed byte, range-checked) -/
def loraSetPpmOffset (frequencyError : Int) : DM Unit := do
  checkModulation SX127x_MODULATION_LORA
  let frequency ← getFrequency
  let ppm := ppmFloat frequencyError frequency
  if !(F.gt ppm (.fin (-129)) && F.lt ppm (.fin 128)) then fail SX127X_ERR_INVALID_ARG else
  match F.toSInt 8 ppm with
  | some v => swrite 0x27 [UInt8.ofNat (v % 256).toNat]
  | none => ub .castRange

/-- `sx127x_fsk_ook_tx_set_for_transmission_with_remaining` -/
def fskOokTxWithRemaining (dataLength : UInt16) : DM Unit := do
  let toSend : Nat := if dataLength.toNat > FIFO_SIZE_FSK then FIFO_SIZE_FSK else dataLength.toNat
  modH fun h => { h with expected := dataLength, received := UInt16.ofNat toSend }
  let h ← getH
  if toSend ≤ h.packet.length then pure () else ub .oobPacket
  bwrite REGFIFO (h.packet.rds 0 toSend)

/-- `sx127x_fsk_ook_tx_set_for_transmission`; the caller's buffer has exactly `data.length` bytes -/
def fskOokTxSetForTransmission (data : List UInt8) : DM Unit := do
  checkFskOok
  let h ← getH
  let n := data.length
  if h.format = SX127X_VARIABLE ∧ n > MAX_PACKET_SIZE then fail SX127X_ERR_INVALID_ARG else
  if h.format = SX127X_FIXED ∧ n > MAX_PACKET_SIZE_FSK_FIXED then fail SX127X_ERR_INVALID_ARG else
  -- the frame is assembled in the buffer
  if n + (if h.format = SX127X_VARIABLE then 1 else 0) > h.packet.length then fail SX127X_ERR_INVALID_ARG else
  if h.format = SX127X_VARIABLE then do
    packetStore 0 (u8 n)
    packetCopy 1 data
    fskOokTxWithRemaining (UInt16.ofNat (n + 1))
  else do
    packetCopy 0 data
    fskOokTxWithRemaining (UInt16.ofNat n)

/-- `sx127x_fsk_ook_tx_set_for_transmission_with_address` -/
def fskOokTxSetForTransmissionWithAddress (data : List UInt8) (addressTo : UInt8) : DM Unit := do
  checkFskOok
  let h ← getH
  let n := data.length
  if h.format = SX127X_VARIABLE ∧ n > MAX_PACKET_SIZE - 1 then fail SX127X_ERR_INVALID_ARG else
  if h.format = SX127X_FIXED ∧ n > MAX_PACKET_SIZE_FSK_FIXED - 1 then fail SX127X_ERR_INVALID_ARG else
  -- the frame is assembled in the buffer
  if n + (if h.format = SX127X_VARIABLE then 2 else 1) > h.packet.length then fail SX127X_ERR_INVALID_ARG else
  if h.format = SX127X_VARIABLE then do
    packetStore 0 (u8 (n + 1))
    packetStore 1 addressTo
    packetCopy 2 data
    fskOokTxWithRemaining (UInt16.ofNat (n + 2))
  else do
    packetStore 0 addressTo
    packetCopy 1 data
    fskOokTxWithRemaining (UInt16.ofNat (n + 1))

/-- `sx127x_fsk_ook_tx_start_beacon` -/
def fskOokTxStartBeacon (data : List UInt8) (intervalMs : Nat) : DM Unit := do
  checkFskOok
  let h ← getH
  if h.format ≠ SX127X_FIXED then fail SX127X_ERR_INVALID_STATE else
  if data.length > FIFO_SIZE_FSK ∨ data.length > h.packet.length then fail SX127X_ERR_INVALID_ARG else
  match beaconTimers intervalMs with
  | none => ub .castRange
  | some (c1, c2, resol) => do
    swrite REGTIMER1COEF [c1]
    swrite REGTIMER2COEF [c2]
    swrite REGTIMERRESOL [resol]
    swrite REGFIFOTHRESH [0x80 ||| u8 HALF_MAX_FIFO_THRESHOLD]
    swrite 0x3f [0x10]
    fskOokTxSetForTransmission data
    appendRegister REGPACKETCONFIG2 0x08 0xf7
    swrite REGSEQCONFIG1 [0xa4]

/-- `sx127x_fsk_ook_tx_stop_beacon` -/
def fskOokTxStopBeacon : DM Unit := do
  checkFskOok
  swrite REGSEQCONFIG1 [0x40]
  swrite REGIRQFLAGS2 [0x10]
  appendRegister REGPACKETCONFIG2 0x00 0xf7

/-- FSK bit rate: `(uint32_t)(32e6f * 16.0 / bitrate)` evaluated in double (l.1066) -/
def fskBitrateValue (bitrate : F) : Option Nat :=
  let num := F.mul b64 (F.cvt b64 (F.ofBits32 SX127x_OSCILLATOR_FREQUENCY_bits)) (F.fin 16)
  F.toUInt 32 (F.div b64 num (F.cvt b64 bitrate))

/-- OOK bit rate: `(uint16_t)(32e6f / bitrate)` in single precision (l.1073) -/
def ookBitrateValue (bitrate : F) : Option Nat :=
  F.toUInt 16 (F.div b32 (F.ofBits32 SX127x_OSCILLATOR_FREQUENCY_bits) bitrate)

/-- `sx127x_fsk_ook_set_bitrate` -/
def fskOokSetBitrate (bitrate : F) : DM Unit := do
  checkFskOok
  let h ← getH
  let write (v : Nat) (frac : UInt8) : DM Unit := do
    swrite REGBITRATEMSB [u8 (v / 256), u8 v]
    swrite REGBITRATEFRAC [frac]
  if h.activeModem = SX127x_MODULATION_FSK then
    if ¬(F.le (F.fin 1200) bitrate ∧ F.le bitrate (F.fin 300000)) then fail SX127X_ERR_INVALID_ARG else
    match fskBitrateValue bitrate with
    | none => ub .castRange
    | some value => write ((value / 16) % 65536) (u8 (value % 16))
  else if h.activeModem = SX127x_MODULATION_OOK then
    if ¬(F.le (F.fin 1200) bitrate ∧ F.le bitrate (F.fin 25000)) then fail SX127X_ERR_INVALID_ARG else
    match ookBitrateValue bitrate with
    | none => ub .castRange
    | some value => write value 0
  else fail SX127X_ERR_INVALID_ARG

/-- `(uint16_t)(fdev / FSTEP)` -/
def fdevValue (fdev : F) : Option Nat :=
  F.toUInt 16 (F.div b32 fdev (F.ofBits32 SX127x_FSTEP_bits))

/-- `sx127x_fsk_set_fdev` -/
def fskSetFdev (fdev : F) : DM Unit := do
  checkModulation SX127x_MODULATION_FSK
  if ¬(F.le (F.fin 600) fdev ∧ F.le fdev (F.fin 200000)) then fail SX127X_ERR_INVALID_ARG else
  match fdevValue fdev with
  | none => ub .castRange
  | some v => swrite REGFDEVMSB [u8 (v / 256), u8 v]

/-- `sx127x_ook_rx_set_peak_mode` -/
def ookRxSetPeakMode (step : Nat) (floorThreshold : UInt8) (decrement : Nat) : DM Unit := do
  checkModulation SX127x_MODULATION_OOK
  swrite REGOOKFIX [floorThreshold]
  appendRegister REGOOKAVG (u8 decrement) 0x1f
  appendRegister REGOOKPEAK (u8 (0x08 ||| step)) 0xe0

/-- `sx127x_ook_rx_set_fixed_mode` -/
def ookRxSetFixedMode (fixedThreshold : UInt8) : DM Unit := do
  checkModulation SX127x_MODULATION_OOK
  swrite REGOOKFIX [fixedThreshold]
  appendRegister REGOOKPEAK 0x00 0xe7

/-- `sx127x_ook_rx_set_avg_mode` -/
def ookRxSetAvgMode (avgOffset avgThresh : Nat) : DM Unit := do
  checkModulation SX127x_MODULATION_OOK
  appendRegister REGOOKAVG (u8 (avgOffset ||| avgThresh)) 0xf0
  appendRegister REGOOKPEAK 0x10 0xe7

/-- `sx127x_fsk_ook_rx_set_collision_restart` -/
def fskOokRxSetCollisionRestart (enable : Bool) (threshold : UInt8) : DM Unit := do
  checkFskOok
  swrite REGRSSICOLLISION [threshold]
  appendRegister REGRXCONFIG (sel enable 0x80 0x00) 0x7f

/-- `sx127x_fsk_ook_rx_set_afc_auto` -/
def fskOokRxSetAfcAuto (afcAuto : Bool) : DM Unit := do
  checkFskOok
  appendRegister REGRXCONFIG (sel afcAuto 0x10 0x00) 0xef

/-- the 21 (mantissa, exponent) points in the order the C loops visit them: e = 7..1, m = 2..0 -/
def bwPoints : List (Nat × Nat) :=
  [7, 6, 5, 4, 3, 2, 1].flatMap fun e => [2, 1, 0].map fun m => (m, e)

/-- the bandwidth realised by register code (m, e): `32e6f / (float)((4m+16) * 2^(e+2))` -/
def bwPoint (m e : Nat) : F :=
  F.div b32 (F.ofBits32 SX127x_OSCILLATOR_FREQUENCY_bits) (F.ofNat b32 ((4 * m + 16) * 2 ^ (e + 2)))

/-- `sx127x_fsk_ook_calculate_bw_register` -/
def calculateBwRegister (bandwidth : F) : UInt8 :=
  let step (acc : F × UInt8) (me : Nat × Nat) : F × UInt8 :=
    let tol := F.abs (F.sub b32 bandwidth (bwPoint me.1 me.2))
    if F.lt tol acc.1 then (tol, u8 (me.1 * 8 ||| me.2)) else acc
  (bwPoints.foldl step (bandwidth, 0)).2

/-- `sx127x_fsk_ook_rx_set_afc_bandwidth` -/
def fskOokRxSetAfcBandwidth (bandwidth : F) : DM Unit := do
  checkFskOok
  swrite REGAFCBW [calculateBwRegister bandwidth]

/-- `sx127x_fsk_ook_rx_set_bandwidth` -/
def fskOokRxSetBandwidth (bandwidth : F) : DM Unit := do
  checkFskOok
  swrite REGRXBW [calculateBwRegister bandwidth]

/-- `sx127x_fsk_ook_rx_set_trigger` -/
def fskOokRxSetTrigger (trigger : Nat) : DM Unit := do
  checkFskOok
  appendRegister REGRXCONFIG (u8 trigger) 0xf8

/-- `sx127x_fsk_ook_set_syncword`; `syncword.length` is the `uint8_t syncword_length` -/
def fskOokSetSyncword (syncword : List UInt8) : DM Unit := do
  checkFskOok
  if syncword.length = 0 ∨ syncword.length > 8 then fail SX127X_ERR_INVALID_ARG else
  if syncword.any (· = 0) then fail SX127X_ERR_INVALID_ARG else do
  appendRegister REGSYNCCONFIG (0x50 ||| u8 (syncword.length - 1)) 0x28
  bwrite REGSYNCVALUE1 syncword

/-- `sx127x_fsk_ook_rx_set_rssi_config` (after the fix: shift of the two's complement byte);
    `offset` is an `int8_t` -/
def fskOokRxSetRssiConfig (smoothing : Nat) (offset : Int) : DM Unit := do
  checkFskOok
  if offset < -16 ∨ offset > 15 then fail SX127X_ERR_INVALID_ARG else
  let ob : UInt8 := UInt8.ofNat (offset % 256).toNat
  swrite REGRSSICONFIG [(ob <<< 3) ||| u8 smoothing]

/-- `sx127x_fsk_ook_set_packet_encoding` -/
def fskOokSetPacketEncoding (encoding : Nat) : DM Unit := do
  checkFskOok
  appendRegister REGPACKETCONFIG1 (u8 encoding) 0x9f

/-- `sx127x_fsk_ook_set_crc` -/
def fskOokSetCrc (crcType : Nat) : DM Unit := do
  checkFskOok
  appendRegister REGPACKETCONFIG1 (u8 crcType) 0xe6
  modH fun h => { h with crcType := crcType }

/-- `sx127x_fsk_ook_set_packet_format` -/
def fskOokSetPacketFormat (format : Nat) (maxPayloadLength : UInt16) : DM Unit := do
  checkFskOok
  let n := maxPayloadLength.toNat
  if format = SX127X_FIXED ∧ (n = 0 ∨ n > MAX_PACKET_SIZE_FSK_FIXED) then fail SX127X_ERR_INVALID_ARG else
  if format = SX127X_VARIABLE ∧ (n = 0 ∨ (n > MAX_PACKET_SIZE ∧ n ≠ MAX_PACKET_SIZE_FSK_FIXED)) then fail SX127X_ERR_INVALID_ARG else do
  appendRegister REGPACKETCONFIG2 (u8 ((n / 256) % 8)) 0xf8
  swrite REGPAYLOADLENGTH_FSK [u8 n]
  appendRegister REGPACKETCONFIG1 (u8 format) 0x7f
  modH fun h => { h with format := format }

/-- `sx127x_fsk_ook_set_address_filtering` -/
def fskOokSetAddressFiltering (type : Nat) (node broadcast : UInt8) : DM Unit := do
  checkFskOok
  if type = SX127X_FILTER_NODE_AND_BROADCAST then swrite REGBROADCASTADRS [broadcast] else pure ()
  if type = SX127X_FILTER_NODE_AND_BROADCAST ∨ type = SX127X_FILTER_NODE_ADDRESS then swrite REGNODEADRS [node] else pure ()
  appendRegister REGPACKETCONFIG1 (u8 type) 0xf9

/-- `sx127x_fsk_set_data_shaping` -/
def fskSetDataShaping (shaping ramp : Nat) : DM Unit := do
  checkModulation SX127x_MODULATION_FSK
  swrite REGPARAMP [u8 (shaping ||| ramp)]

/-- `sx127x_ook_set_data_shaping` -/
def ookSetDataShaping (shaping ramp : Nat) : DM Unit := do
  checkModulation SX127x_MODULATION_OOK
  swrite REGPARAMP [u8 (shaping ||| ramp)]

/-- `sx127x_fsk_ook_set_preamble_type` -/
def fskOokSetPreambleType (type : Nat) : DM Unit := do
  checkFskOok
  appendRegister REGSYNCCONFIG (u8 type) 0xdf

/-- `sx127x_fsk_ook_rx_set_preamble_detector` -/
def fskOokRxSetPreambleDetector (enable : Bool) (size tolerance : UInt8) : DM Unit := do
  checkFskOok
  if size > 3 ∨ size < 1 then fail SX127X_ERR_INVALID_ARG else
  swrite REGPREAMBLEDETECT [sel enable 0x80 0x00 ||| ((size - 1) <<< 5) ||| (tolerance &&& 0x1f)]

/-- the polling loop of `sx127x_fsk_ook_rx_calibrate` (l.1262-1264) -/
def calibrateLoop : Nat → DM Unit
  | 0 => ub .fuel
  | fuel + 1 => do
    let value ← rread REGIMAGECAL
    if value &&& 0x20 = 0x20 then calibrateLoop fuel else pure ()

/-- `sx127x_fsk_ook_rx_calibrate` -/
def fskOokRxCalibrate (fuel : Nat) : DM Unit := do
  checkFskOok
  let h ← getH
  if h.opmod ≠ SX127x_MODE_STANDBY then fail SX127X_ERR_INVALID_STATE else do
  appendRegister REGIMAGECAL 0x40 0xbf
  calibrateLoop fuel

/-- the decode of `sx127x_fsk_ook_get_raw_temperature`, as an `int8_t` -/
def rawTemperatureOf (value : UInt8) : Int :=
  if value &&& 0x80 = 0x80 then (255 - value.toNat : Nat) else -(value.toNat : Int)

/-- `sx127x_fsk_ook_get_raw_temperature` -/
def fskOokGetRawTemperature : DM Int := do
  checkFskOok
  let value ← rread REGTEMP
  pure (rawTemperatureOf value)

/-- `sx127x_fsk_ook_set_temp_monitor` -/
def fskOokSetTempMonitor (enable : Bool) : DM Unit := do
  checkFskOok
  appendRegister REGIMAGECAL (sel enable 0x00 0x01) 0xfe

end Sx.Model
