import Sx.Gen.Backend
/-
  The two bundled SPI backends (`src/sx127x_linux_spi.c`, `src/sx127x_esp_spi.c`), one definition
  per C function, as pure functions from a request and the answer of the transaction primitive
  (`ioctl(SPI_IOC_MESSAGE(1))` / `spi_device_polling_transmit`) to: the return code, the MOSI bytes
  of every transaction attempted, and what was stored through the caller's out-pointers.

  Integers wider than a byte are `Nat`s with the C truncations written out; the `uint64_t`/`uint8_t[]`
  objects whose address is handed to the kernel are read and written as little-endian byte strings
  (little-endian host: trusted base).  Core Lean only.
-/
namespace Sx.Backend

/-- what the transaction primitive does with one transaction -/
structure Wire where
  /-- 0: the transaction succeeded; otherwise `errno` (Linux, after `ioctl` returned -1) or the
      `esp_err_t` returned by `spi_device_polling_transmit` -/
  fail : Int := 0
  /-- byte clocked in while the address byte goes out (full-duplex `spidev` stores it) -/
  garbage : UInt8 := 0
  /-- bytes the chip shifts out after the address byte -/
  miso : List UInt8 := []

structure Out where
  rc : Int
  /-- MOSI bytes of every transaction attempted, in order -/
  frames : List (List UInt8) := []
  /-- the value stored to `*result`, if the function stored one -/
  word : Option Nat := none
  /-- the bytes stored to the caller's buffer, if the function stored any -/
  buf : Option (List UInt8) := none
  deriving DecidableEq, Repr

def byte (n : Nat) : UInt8 := UInt8.ofNat (n % 256)

/-- the first `k` bytes of the object representation of a little-endian integer -/
def leBytes : Nat → Nat → List UInt8
  | 0, _ => []
  | k + 1, x => byte x :: leBytes k (x / 256)

/-- the integer whose little-endian object representation starts with these bytes (rest zero) -/
def fromLE : List UInt8 → Nat
  | [] => 0
  | b :: bs => b.toNat + 256 * fromLE bs

/-- `ntohl` on a little-endian host -/
def bswap32 (x : Nat) : Nat :=
  (x % 256) * 16777216 + (x / 256 % 256) * 65536 + (x / 65536 % 256) * 256 + (x / 16777216 % 256)

/-- most significant byte first -/
def msbFirst (bs : List UInt8) : Nat := bs.foldl (fun acc b => acc * 256 + b.toNat) 0

def zeros (n : Nat) : List UInt8 := List.replicate n 0

/-- the first `k` bytes a receive buffer holds after a successful full-duplex transaction of `k`
    bytes into zero-initialised memory -/
def rxBytes (w : Wire) (k : Nat) : List UInt8 := (w.garbage :: w.miso ++ zeros k).take k

/-- the first `k` bytes a receive buffer holds when the address phase is not stored (ESP-IDF) -/
def rxData (w : Wire) (k : Nat) : List UInt8 := (w.miso ++ zeros k).take k

/-! ### src/sx127x_linux_spi.c -/

def EINVAL_LEN : Int := -1

def linReadRegisters (reg n : Nat) (w : Wire) : Out :=
  if n = 0 ∨ n > Gen.LIN_read_registers_GUARD then { rc := EINVAL_LEN } else
  let tx : Nat := (reg % 256) &&& 0x7f                     -- uint64_t tx_buf = ((uint8_t) reg & 0x7F)
  let mosi := leBytes (n + 1) tx                           -- tr.len = data_length + 1
  if w.fail ≠ 0 then { rc := w.fail, frames := [mosi], word := some 0 } else
  let rx := fromLE (rxBytes w (n + 1))                     -- uint64_t rx_buf = 0, first n+1 bytes stored
  { rc := 0, frames := [mosi],
    word := some (bswap32 ((rx / 256) % 4294967296) / 2 ^ ((4 - n) * 8)) }

def linReadBuffer (reg n : Nat) (w : Wire) : Out :=
  if n < 1 then { rc := 0 } else
  if n > Gen.SPI_MAX_TRANSFER_SIZE then { rc := Gen.ENOMEM } else
  let mosi := byte ((reg % 256) &&& 0x7f) :: zeros n
  if w.fail ≠ 0 then { rc := w.fail, frames := [mosi] } else
  { rc := 0, frames := [mosi], buf := some ((rxBytes w (n + 1)).drop 1) }   -- memcpy(buffer, rx_buf + 1, n)

def linWriteRegister (reg : Nat) (data : List UInt8) (w : Wire) : Out :=
  let n := data.length
  if n = 0 ∨ n > Gen.LIN_write_register_GUARD then { rc := EINVAL_LEN } else
  let mosi := byte (reg ||| 0x80) :: data                  -- tmp[0] = reg | 0x80; memcpy(tmp + 1, data, n)
  if w.fail ≠ 0 then { rc := w.fail, frames := [mosi] } else { rc := 0, frames := [mosi] }

def linWriteBuffer (reg : Nat) (data : List UInt8) (w : Wire) : Out :=
  let n := data.length
  if n < 1 then { rc := 0 } else
  if n > Gen.SPI_MAX_TRANSFER_SIZE then { rc := Gen.ENOMEM } else
  let mosi := byte (reg ||| 0x80) :: data
  if w.fail ≠ 0 then { rc := w.fail, frames := [mosi] } else { rc := 0, frames := [mosi] }

/-! ### src/sx127x_esp_spi.c
    One `spi_transaction_t` is: the low 8 bits of `.addr`, then `.length / 8` bytes taken from
    `tx_data` / `tx_buffer` (zeros when there is none), while `.rxlength / 8` bytes are stored. -/

def espReadRegisters (reg n : Nat) (w : Wire) : Out :=
  if n = 0 ∨ n > Gen.ESP_read_registers_GUARD then { rc := Gen.ESP_ERR_INVALID_ARG } else
  let mosi := byte (reg &&& 0x7f) :: zeros n
  if w.fail ≠ 0 then { rc := w.fail, frames := [mosi], word := some 0 } else     -- *result = 0 came first
  { rc := 0, frames := [mosi],
    word := some ((rxData w n).foldl (fun acc b => ((acc * 256) % 4294967296 + b.toNat) % 4294967296) 0) }

def espReadBuffer (reg n : Nat) (w : Wire) : Out :=
  let mosi := byte (reg &&& 0x7f) :: zeros n
  if w.fail ≠ 0 then { rc := w.fail, frames := [mosi] } else
  { rc := 0, frames := [mosi], buf := some (rxData w n) }

def espWriteRegister (reg : Nat) (data : List UInt8) (w : Wire) : Out :=
  let n := data.length
  if n = 0 ∨ n > Gen.ESP_write_register_GUARD then { rc := Gen.ESP_ERR_INVALID_ARG } else
  let mosi := byte (reg ||| 0x80) :: data
  { rc := w.fail, frames := [mosi] }

def espWriteBuffer (reg : Nat) (data : List UInt8) (w : Wire) : Out :=
  let mosi := byte (reg ||| 0x80) :: data
  { rc := w.fail, frames := [mosi] }

end Sx.Backend
