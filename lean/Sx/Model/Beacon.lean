import Sx.F
/-
  The timer selection of `sx127x_fsk_ook_tx_start_beacon` (src/sx127x.c), in its own file so that
  the table proof of C14 (one kernel evaluation per interval) is rebuilt only when this file or the
  soft-float changes.
-/
namespace Sx.Model
open Sx

/-- `sx127x_timer_coefficient`: the 8-bit timer coefficient of a float, saturated at 255;
    `none` = the float→`uint8_t` conversion is out of range (negative below -1, or NaN) -/
def timerCoefficient (x : F) : Option Nat :=
  if F.gt x (F.ofNat b32 255) then some 255 else F.toUInt 8 x

/-- result of the timer selection of `sx127x_fsk_ook_tx_start_beacon`:
    (timer1 coefficient, timer2 coefficient, RegTimerResol value); `none` = a float→`uint8_t`
    conversion out of range -/
def beaconTimers (intervalMs : Nat) : Option (UInt8 × UInt8 × UInt8) :=
  let p1 := f32 (64/1000)
  let p2 := f32 (41/10)
  let p3 := f32 262
  let iv := F.ofNat b32 intervalMs
  let c255 := F.ofNat b32 255
  let two := F.ofNat b32 2
  let m (a b : F) := F.mul b32 a b
  let d (a b : F) := F.div b32 a b
  let a (x y : F) := F.add b32 x y
  -- (resolution1, timer1 coefficient as a float, resolution2 if it does not depend on the rest)
  let choice : F × F × Option F :=
    if F.le iv (m (m c255 p1) two) then (p1, d (d iv p1) two, some p1)
    else if F.le iv (a (m c255 p2) (m c255 p1)) then (p2, d iv p2, some p1)
    else if F.le iv (m (m c255 p2) two) then (p2, d (d iv p2) two, some p2)
    else if F.le iv (a (m c255 p3) (m c255 p2)) then (p3, d iv p3, none)
    else (p3, d (d iv p3) two, some p3)
  let (r1, c1f, r2o) := choice
  match timerCoefficient c1f with
  | none => none
  | some c1 =>
    let rem := F.sub b32 iv (m r1 (F.ofNat b32 c1))
    -- timer2 counts what is left in the finest resolution that can hold it
    let r2 := match r2o with
      | some r => r
      | none => if F.le rem (m c255 p1) then p1 else p2
    match timerCoefficient (d rem r2) with
    | none => none
    | some c2 =>
      let hi : Nat := if F.eq r1 p1 then 0x04 else if F.eq r1 p2 then 0x08 else 0x0c
      let lo : Nat := if F.eq r2 p1 then 0x01 else if F.eq r2 p2 then 0x02 else 0x03
      some (UInt8.ofNat c1, UInt8.ofNat c2, UInt8.ofNat (hi + lo))

end Sx.Model
