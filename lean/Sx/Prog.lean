import Sx.Basic
/-
  Driver code as data.  A driver function is a `Prog`: a tree whose nodes are the five
  shadow-layer entry points of sx127x.c (lines 107-205), the one raw SPI call used by
  `sx127x_dump_registers`, application callbacks, and explicit undefined behaviour.
  The register cache is *not* part of a `Prog`; it lives in the interpreter (Sx/Exec.lean),
  exactly as `CONFIG_SX127X_DISABLE_SPI_CACHE` selects between two bodies of the same helpers.
-/
namespace Sx

/-- Host-side state other than the register cache (`struct sx127x_t` minus `spi_device`). -/
structure Handle where
  activeModem : Nat := 0          -- sx127x_modulation_t (a C enum holds any int value)
  opmod : Nat := 0                -- sx127x_mode_t
  implicitHeader : Bool := false
  rxCb : Bool := false            -- callback pointer non-NULL?
  txCb : Bool := false
  cadCb : Bool := false
  packet : Mem := []              -- `uint8_t packet[CONFIG_SX127X_MAX_PACKET_SIZE]`
  expected : UInt16 := 0          -- expected_packet_length
  received : UInt16 := 0          -- fsk_ook_packet_sent_received
  rssiAvail : Bool := false
  rssi : Int := 0                 -- int16_t fsk_rssi
  format : Nat := 0               -- sx127x_packet_format_t
  crcType : Nat := 0              -- sx127x_crc_type_t
  freqs : Option (List UInt64) := none   -- `uint64_t *frequencies` (none = NULL) with the caller's array
  freqLen : UInt8 := 0
  curFreq : UInt8 := 0
  deriving DecidableEq, Repr, Inhabited

/-- What the application sees in a callback. -/
inductive CbEvent
  | rx (data : List UInt8) (len : Nat)   -- first `min len cap` bytes of `packet`, and the length argument
  | tx
  | cad (detected : Nat)
  deriving DecidableEq, Repr, Inhabited

inductive Prog (α : Type) : Type
  | ret      : α → Prog α
  | ub       : UB → Prog α
  /-- `sx127x_shadow_spi_read_registers(reg, dev, n, &result)` -/
  | sread    : (reg n : Nat) → (Except Code UInt32 → Prog α) → Prog α
  /-- `sx127x_read_register(reg, dev, &result)` -/
  | rread    : (reg : Nat) → (Except Code UInt8 → Prog α) → Prog α
  /-- `sx127x_shadow_spi_write_register(reg, data, n, dev)` -/
  | swrite   : (reg : Nat) → (data : List UInt8) → (Except Code Unit → Prog α) → Prog α
  /-- `sx127x_shadow_spi_write_buffer(reg, data, n, dev)` -/
  | bwrite   : (reg : Nat) → (data : List UInt8) → (Except Code Unit → Prog α) → Prog α
  /-- `sx127x_shadow_spi_read_buffer(reg, buf, n, dev)` -/
  | bread    : (reg n : Nat) → (Except Code (List UInt8) → Prog α) → Prog α
  /-- `sx127x_spi_read_buffer` called directly (register dump) -/
  | rawbread : (reg n : Nat) → (Except Code (List UInt8) → Prog α) → Prog α
  /-- invoke an application callback; the application may call API functions on the same
      handle before returning, so the continuation receives the handle as it is afterwards -/
  | callback : CbEvent → Handle → (Handle → Prog α) → Prog α

namespace Prog
def bind : Prog α → (α → Prog β) → Prog β
  | ret a, f => f a
  | ub u, _ => ub u
  | sread r n k, f => sread r n (fun x => (k x).bind f)
  | rread r k, f => rread r (fun x => (k x).bind f)
  | swrite r d k, f => swrite r d (fun x => (k x).bind f)
  | bwrite r d k, f => bwrite r d (fun x => (k x).bind f)
  | bread r n k, f => bread r n (fun x => (k x).bind f)
  | rawbread r n k, f => rawbread r n (fun x => (k x).bind f)
  | callback e h k, f => callback e h (fun x => (k x).bind f)

instance : Monad Prog where
  pure := ret
  bind := bind

@[simp] theorem bind_ret (a : α) (f : α → Prog β) : (ret a).bind f = f a := rfl
@[simp] theorem pure_eq (a : α) : (pure a : Prog α) = ret a := rfl
@[simp] theorem bind_eq (x : Prog α) (f : α → Prog β) : (x >>= f) = x.bind f := rfl
end Prog

/-- a request to the shadow layer, without its continuation -/
inductive Req
  | sread (reg n : Nat)
  | rread (reg : Nat)
  | swrite (reg : Nat) (data : List UInt8)
  | bwrite (reg : Nat) (data : List UInt8)
  | bread (reg n : Nat)
  | rawbread (reg n : Nat)
  deriving DecidableEq, Repr

/-- every request the program can issue — whatever the chip and the bus answer, whatever the
    application does to the handle inside callbacks — satisfies `P` -/
def Prog.All (P : Req → Prop) : Prog α → Prop
  | .ret _ => True
  | .ub _ => True
  | .sread reg n k => P (.sread reg n) ∧ ∀ r, (k r).All P
  | .rread reg k => P (.rread reg) ∧ ∀ r, (k r).All P
  | .swrite reg d k => P (.swrite reg d) ∧ ∀ r, (k r).All P
  | .bwrite reg d k => P (.bwrite reg d) ∧ ∀ r, (k r).All P
  | .bread reg n k => P (.bread reg n) ∧ ∀ r, (k r).All P
  | .rawbread reg n k => P (.rawbread reg n) ∧ ∀ r, (k r).All P
  | .callback _ _ k => ∀ h, (k h).All P

theorem Prog.All_bind {P : Req → Prop} {x : Prog α} {f : α → Prog β}
    (hx : x.All P) (hf : ∀ a, (f a).All P) : (x.bind f).All P := by
  induction x with
  | ret a => exact hf a
  | ub u => trivial
  | sread reg n k ih => exact ⟨hx.1, fun r => ih r (hx.2 r)⟩
  | rread reg k ih => exact ⟨hx.1, fun r => ih r (hx.2 r)⟩
  | swrite reg d k ih => exact ⟨hx.1, fun r => ih r (hx.2 r)⟩
  | bwrite reg d k ih => exact ⟨hx.1, fun r => ih r (hx.2 r)⟩
  | bread reg n k ih => exact ⟨hx.1, fun r => ih r (hx.2 r)⟩
  | rawbread reg n k ih => exact ⟨hx.1, fun r => ih r (hx.2 r)⟩
  | callback e h k ih => exact fun h' => ih h' (hx h')

theorem Prog.All_mono {P Q : Req → Prop} (hPQ : ∀ r, P r → Q r) {x : Prog α} (hx : x.All P) : x.All Q := by
  induction x with
  | ret a => trivial
  | ub u => trivial
  | sread reg n k ih => exact ⟨hPQ _ hx.1, fun r => ih r (hx.2 r)⟩
  | rread reg k ih => exact ⟨hPQ _ hx.1, fun r => ih r (hx.2 r)⟩
  | swrite reg d k ih => exact ⟨hPQ _ hx.1, fun r => ih r (hx.2 r)⟩
  | bwrite reg d k ih => exact ⟨hPQ _ hx.1, fun r => ih r (hx.2 r)⟩
  | bread reg n k ih => exact ⟨hPQ _ hx.1, fun r => ih r (hx.2 r)⟩
  | rawbread reg n k ih => exact ⟨hPQ _ hx.1, fun r => ih r (hx.2 r)⟩
  | callback e h k ih => exact fun h' => ih h' (hx h')

/-- Driver monad: handle state + C return code over `Prog`.  A C function
    `int f(..., sx127x *device)` is a `DM α`; handle mutations persist on the error path,
    as they do in C. -/
def DM (α : Type) := Handle → Prog (Except Code α × Handle)

namespace DM
@[inline] def pure' (a : α) : DM α := fun h => .ret (.ok a, h)
@[inline] def bind' (x : DM α) (f : α → DM β) : DM β := fun h =>
  (x h).bind fun
    | (.ok a, h') => f a h'
    | (.error c, h') => .ret (.error c, h')
instance : Monad DM where
  pure := pure'
  bind := bind'

/-- `return code;` with a non-OK code -/
@[inline] def fail (c : Code) : DM α := fun h => .ret (.error c, h)
@[inline] def ub (u : UB) : DM α := fun _ => .ub u
@[inline] def getH : DM Handle := fun h => .ret (.ok h, h)
@[inline] def setH (h' : Handle) : DM Unit := fun _ => .ret (.ok (), h')
@[inline] def modH (f : Handle → Handle) : DM Unit := fun h => .ret (.ok (), f h)
/-- run `x` and hand its return code to the caller instead of propagating it -/
@[inline] def attempt (x : DM α) : DM (Except Code α) := fun h =>
  (x h).bind fun (r, h') => .ret (.ok r, h')
/-- lift a C return value: non-zero code fails -/
@[inline] def ofExcept : Except Code α → DM α
  | .ok a => pure' a
  | .error c => fail c

@[inline] def sread (reg n : Nat) : DM UInt32 := fun h => .sread reg n fun r => .ret (r, h)
@[inline] def rread (reg : Nat) : DM UInt8 := fun h => .rread reg fun r => .ret (r, h)
@[inline] def swrite (reg : Nat) (d : List UInt8) : DM Unit := fun h => .swrite reg d fun r => .ret (r, h)
@[inline] def bwrite (reg : Nat) (d : List UInt8) : DM Unit := fun h => .bwrite reg d fun r => .ret (r, h)
@[inline] def bread (reg n : Nat) : DM (List UInt8) := fun h => .bread reg n fun r => .ret (r, h)
@[inline] def rawbread (reg n : Nat) : DM (List UInt8) := fun h => .rawbread reg n fun r => .ret (r, h)
@[inline] def cb (e : CbEvent) : DM Unit := fun h => .callback e h fun h' => .ret (.ok (), h')
end DM

end Sx
