import Sx.Exec
/-
  Plain execution: no register cache, no failing transfers, no environment events inside the
  operation, callbacks without application reaction.  A program then is a function from the
  chip to a result, the chip afterwards, the bus trace and the callback log.  Function-level
  theorems are proved about `runP` and carried to the cached build by C02 (`execG_sim`).
-/
namespace Sx

structure PState where
  chip : Chip
  bus : List BusEv := []      -- newest first
  cbs : List CbEvent := []    -- newest first
  deriving Inhabited

inductive PRes (α : Type)
  | done (a : α) (s : PState)
  | ub (u : UB) (s : PState)

namespace PRes
def state : PRes α → PState
  | done _ s => s
  | ub _ s => s
end PRes

def runP : Prog α → PState → PRes α
  | .ret a, s => .done a s
  | .ub u, s => .ub u s
  | .sread reg n k, s =>
    let (vs, c) := s.chip.readN reg n
    runP (k (.ok (be32 vs))) { s with chip := c, bus := .r reg n (.ok (be32 vs)) :: s.bus }
  | .rread reg k, s =>
    let (vs, c) := s.chip.readN reg 1
    runP (k (.ok (be32 vs).toUInt8)) { s with chip := c, bus := .r reg 1 (.ok (be32 vs)) :: s.bus }
  | .swrite reg d k, s =>
    runP (k (.ok ())) { s with chip := s.chip.writeN reg d, bus := .w reg d (.ok ()) :: s.bus }
  | .bwrite reg d k, s =>
    runP (k (.ok ())) { s with chip := s.chip.writeN reg d, bus := .wb reg d (.ok ()) :: s.bus }
  | .bread reg n k, s =>
    let (vs, c) := s.chip.readN reg n
    runP (k (.ok vs)) { s with chip := c, bus := .rb reg n (.ok vs) :: s.bus }
  | .rawbread reg n k, s =>
    let (vs, c) := s.chip.readN reg n
    runP (k (.ok vs)) { s with chip := c, bus := .rb reg n (.ok vs) :: s.bus }
  | .callback e h k, s => runP (k h) { s with cbs := e :: s.cbs }

end Sx
