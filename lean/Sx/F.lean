import Sx.Basic
/-
  A small exact soft-float: IEEE-754 binary32 / binary64 round-to-nearest-even arithmetic
  described over `Rat`.  Lean's native `Float`/`Float32` are opaque to the kernel, so the
  float code of sx127x.c is modelled with these definitions; the same definitions run in
  `sxmodel` and are compared bit-for-bit with the C results by the correspondence check.
-/
namespace Sx

/-- `floor (log2 a)` for `a > 0` (0 for non-positive input). -/
def ilog2 (a : Rat) : Int :=
  if a ≤ 0 then 0 else
  let k : Int := (Nat.log2 a.num.natAbs : Int) - (Nat.log2 a.den : Int)
  if (2 : Rat) ^ (k + 1) ≤ a then k + 1
  else if (2 : Rat) ^ k ≤ a then k else k - 1

/-- round a non-negative rational to the nearest integer, ties to even -/
def roundHalfEven (s : Rat) : Int :=
  let f := s.floor
  let r := s - f
  if r < 1/2 then f
  else if 1/2 < r then f + 1
  else if f % 2 = 0 then f else f + 1

/-- exponent of the unit in the last place for magnitude `a` at precision `p`,
    not below `emin - (p-1)` (gradual underflow) -/
def ulpExp (p : Nat) (emin : Int) (a : Rat) : Int := max (ilog2 a - ((p : Int) - 1)) (emin - ((p : Int) - 1))

/-- round-to-nearest-even to `p` significant bits with minimal normal exponent `emin`;
    no overflow handling (see `F.round`) -/
def rnd (p : Nat) (emin : Int) (q : Rat) : Rat :=
  if q = 0 then 0 else
  let a := if q < 0 then -q else q
  let e := ulpExp p emin a
  let m := roundHalfEven (a / (2 : Rat) ^ e)
  let r := (m : Rat) * (2 : Rat) ^ e
  if q < 0 then -r else r

/-- a floating-point datum -/
inductive F
  | nan
  | inf (neg : Bool)
  | fin (q : Rat)
  deriving Repr, Inhabited

/-- floating-point format: precision, minimal and maximal normal exponent -/
structure Fmt where
  p : Nat
  emin : Int
  emax : Int

def b32 : Fmt := ⟨24, -126, 127⟩
def b64 : Fmt := ⟨53, -1022, 1023⟩

namespace F
def round (f : Fmt) (q : Rat) : F :=
  let r := rnd f.p f.emin q
  if (2 : Rat) ^ (f.emax + 1) ≤ (if r < 0 then -r else r) then .inf (r < 0) else .fin r

def neg : F → F
  | nan => nan | inf s => inf (!s) | fin q => fin (-q)

def add (f : Fmt) : F → F → F
  | nan, _ | _, nan => nan
  | inf a, inf b => if a = b then inf a else nan
  | inf a, fin _ => inf a
  | fin _, inf b => inf b
  | fin x, fin y => round f (x + y)

def sub (f : Fmt) (x y : F) : F := add f x (neg y)

def mul (f : Fmt) : F → F → F
  | nan, _ | _, nan => nan
  | inf a, inf b => inf (a != b)
  | inf a, fin y => if y = 0 then nan else inf (a != decide (y < 0))
  | fin x, inf b => if x = 0 then nan else inf (b != decide (x < 0))
  | fin x, fin y => round f (x * y)

/-- division; signed zeros are not tracked, so `x / 0` for `x ≠ 0` is an infinity of the
    sign of `x` (the sign never matters in the modelled code: every such value reaches a
    float→integer cast, which is undefined for both infinities) -/
def div (f : Fmt) : F → F → F
  | nan, _ | _, nan => nan
  | inf _, inf _ => nan
  | inf a, fin y => inf (a != decide (y < 0))
  | fin _, inf _ => fin 0
  | fin x, fin y => if y = 0 then (if x = 0 then nan else inf (x < 0)) else round f (x / y)

def abs : F → F
  | nan => nan | inf _ => inf false | fin q => fin (if q < 0 then -q else q)

/-- C `<` (false when unordered) -/
def lt : F → F → Bool
  | nan, _ | _, nan => false
  | inf a, inf b => a && !b
  | inf a, fin _ => a
  | fin _, inf b => !b
  | fin x, fin y => x < y
def le : F → F → Bool
  | nan, _ | _, nan => false
  | inf a, inf b => a || !b
  | inf a, fin _ => a
  | fin _, inf b => !b
  | fin x, fin y => x ≤ y
def gt (x y : F) : Bool := lt y x
def eq : F → F → Bool
  | nan, _ | _, nan => false
  | inf a, inf b => a == b
  | fin x, fin y => x == y
  | _, _ => false

/-- integer → floating point (`(float) n`) -/
def ofInt (f : Fmt) (n : Int) : F := round f (n : Rat)
def ofNat (f : Fmt) (n : Nat) : F := round f (n : Rat)
/-- widening / narrowing conversion between formats -/
def cvt (f : Fmt) : F → F
  | fin q => round f q
  | x => x

/-- truncation toward zero -/
def truncQ (q : Rat) : Int := if q < 0 then -((-q).floor) else q.floor

/-- float → unsigned integer of `bits` bits (C99 6.3.1.4: undefined unless the truncated
    value is representable) -/
def toUInt (bits : Nat) : F → Option Nat
  | fin q => let t := truncQ q; if 0 ≤ t ∧ t < (2 : Int) ^ bits then some t.toNat else none
  | _ => none
/-- float → signed integer of `bits` bits -/
def toSInt (bits : Nat) : F → Option Int
  | fin q => let t := truncQ q
             if -((2 : Int) ^ (bits - 1)) ≤ t ∧ t < (2 : Int) ^ (bits - 1) then some t else none
  | _ => none

/-- decode a binary32 bit pattern -/
def ofBits32 (u : UInt32) : F :=
  let n := u.toNat
  let s := n / 2 ^ 31 = 1
  let e : Nat := (n / 2 ^ 23) % 256
  let m : Nat := n % 2 ^ 23
  if e = 255 then (if m = 0 then .inf s else .nan)
  else
    let mag : Rat := if e = 0 then ((m : Int) : Rat) * (2 : Rat) ^ (-149 : Int)
                     else (((2 ^ 23 + m : Nat) : Int) : Rat) * (2 : Rat) ^ ((e : Int) - 150)
    .fin (if s then -mag else mag)

/-- encode a binary32 value (NaN → canonical quiet NaN) -/
def toBits32 : F → UInt32
  | nan => 0x7fc00000
  | inf s => if s then 0xff800000 else 0x7f800000
  | fin q =>
    if q = 0 then 0 else
    let sgn : Nat := if q < 0 then 2 ^ 31 else 0
    let a := if q < 0 then -q else q
    let e := ilog2 a
    if e < -126 then
      UInt32.ofNat (sgn + (a / (2 : Rat) ^ (-149 : Int)).floor.toNat)
    else
      let m := (a / (2 : Rat) ^ (e - 23)).floor.toNat   -- in [2^23, 2^24)
      UInt32.ofNat (sgn + ((e + 127).toNat) * 2 ^ 23 + (m - 2 ^ 23))
end F

/-- binary32 literals of sx127x.c, written as the exact rational value of the nearest float -/
def f32 (q : Rat) : F := F.round b32 q

end Sx
