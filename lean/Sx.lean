import Sx.Basic
import Sx.Prog
import Sx.F
