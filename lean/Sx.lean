import Sx.Basic
import Sx.Prog
import Sx.F
import Sx.Gen.Consts
import Sx.Model.Driver
import Sx.Chip
import Sx.Exec
import Sx.Api
