import Sx.Sys
import Sx.Model.DebugTool
import Sx.Model.Backend
/-
  `sxmodel`: executes an operation script (the line protocol of harness/sxh.c) on the Lean model
  in closed loop with the Lean chip model and prints the same trace lines the C harness prints.
  Core Lean only.
-/
open Sx

def hexDigit (n : Nat) : Char := if n < 10 then Char.ofNat (48 + n) else Char.ofNat (87 + n)

def toHex (n : Nat) : String :=
  if n = 0 then "0" else
  let rec go (n : Nat) (acc : List Char) (fuel : Nat) : List Char :=
    match fuel with
    | 0 => acc
    | fuel + 1 => if n = 0 then acc else go (n / 16) (hexDigit (n % 16) :: acc) fuel
  String.ofList (go n [] 64)

def hex2 (b : UInt8) : String := String.ofList [hexDigit (b.toNat / 16), hexDigit (b.toNat % 16)]
def hexBytes (d : List UInt8) : String := String.join (d.map hex2)
def hex8 (u : UInt32) : String :=
  let s := toHex u.toNat
  String.ofList (List.replicate (8 - s.length) '0') ++ s

def hexVal (c : Char) : Option Nat :=
  if '0' ≤ c ∧ c ≤ '9' then some (c.toNat - 48)
  else if 'a' ≤ c ∧ c ≤ 'f' then some (c.toNat - 87)
  else if 'A' ≤ c ∧ c ≤ 'F' then some (c.toNat - 55)
  else none

def parseHexNat (s : String) : Nat :=
  s.toList.foldl (fun acc c => match hexVal c with | some v => acc * 16 + v | none => acc) 0

/-- C `strtoll(s, NULL, 0)` for the forms the scripts use -/
def parseInt (s : String) : Int :=
  let (neg, body) := if s.startsWith "-" then (true, (s.drop 1).toString) else (false, s)
  let v : Nat := if body.startsWith "0x" ∨ body.startsWith "0X" then parseHexNat (body.drop 2).toString
                 else body.toNat?.getD 0
  if neg then -(v : Int) else v

def parseNat (s : String) : Nat := (parseInt s).toNat
def parseU8 (s : String) : UInt8 := UInt8.ofNat ((parseInt s) % 256).toNat
def parseBool (s : String) : Bool := parseInt s ≠ 0
/-- an enum / unsigned argument: the value modulo 2^32 -/
def parseEnum (s : String) : Nat := ((parseInt s) % 4294967296).toNat

def parseBytes (s : String) : List UInt8 :=
  if s = "-" then [] else
  let rec go : List Char → List UInt8
    | a :: b :: rest => UInt8.ofNat ((hexVal a).getD 0 * 16 + (hexVal b).getD 0) :: go rest
    | _ => []
  go s.toList

def arg (t : List String) (i : Nat) : String := t.getD i "0"

def parseApi (t : List String) : Option Api :=
  let a := arg t
  match t.head? with
  | none => none
  | some name =>
  match name with
  | "create" => some .create
  | "set_opmod" => some (.setOpmod (parseEnum (a 1)) (parseEnum (a 2)))
  | "set_frequency" => some (.setFrequency (UInt64.ofNat (parseNat (a 1))))
  | "get_frequency" => some .getFrequency
  | "lora_reset_fifo" => some .loraResetFifo
  | "rx_set_lna_gain" => some (.rxSetLnaGain (parseEnum (a 1)))
  | "rx_set_lna_boost_hf" => some (.rxSetLnaBoostHf (parseBool (a 1)))
  | "lora_set_bandwidth" => some (.loraSetBandwidth (parseEnum (a 1)))
  | "lora_get_bandwidth" => some .loraGetBandwidth
  | "lora_set_modem_config_2" => some (.loraSetModemConfig2 (parseEnum (a 1)))
  | "lora_set_low_datarate_optimization" => some (.loraSetLowDatarateOptimization (parseBool (a 1)))
  | "lora_set_syncword" => some (.loraSetSyncword (parseU8 (a 1)))
  | "set_preamble_length" => some (.setPreambleLength (UInt16.ofNat ((parseInt (a 1)) % 65536).toNat))
  | "lora_set_implicit_header" =>
    if a 1 = "NULL" then some (.loraSetImplicitHeader none)
    else some (.loraSetImplicitHeader (some (parseU8 (a 1), parseBool (a 2), parseEnum (a 3))))
  | "lora_tx_set_explicit_header" =>
    if a 1 = "NULL" then some (.loraTxSetExplicitHeader none)
    else some (.loraTxSetExplicitHeader (some (parseBool (a 1), parseEnum (a 2))))
  | "lora_set_frequency_hopping" =>
    let fs : Option (List UInt64) :=
      if t.length < 4 ∨ a 3 = "NULL" then none
      else some ((a 3).splitOn "," |>.map fun s => UInt64.ofNat (parseNat s))
    some (.loraSetFrequencyHopping (parseU8 (a 1)) fs (parseU8 (a 2)))
  | "rx_get_packet_rssi" => some .rxGetPacketRssi
  | "lora_rx_get_packet_snr" => some .loraRxGetPacketSnr
  | "rx_get_frequency_error" => some .rxGetFrequencyError
  | "dump_registers" => some .dumpRegisters
  | "tx_set_pa_config" => some (.txSetPaConfig (parseEnum (a 1)) (parseInt (a 2)))
  | "tx_set_ocp" => some (.txSetOcp (parseBool (a 1)) (parseU8 (a 2)))
  | "lora_tx_set_for_transmission" => some (.loraTxSetForTransmission ((parseBytes (a 1)).take 255))
  | "lora_set_ppm_offset" => some (.loraSetPpmOffset (parseInt (a 1)))
  | "fsk_ook_tx_set_for_transmission" => some (.fskOokTxSetForTransmission ((parseBytes (a 1)).take 4096))
  | "fsk_ook_tx_set_for_transmission_with_address" =>
    some (.fskOokTxSetForTransmissionWithAddress ((parseBytes (a 1)).take 4096) (parseU8 (a 2)))
  | "fsk_ook_tx_start_beacon" => some (.fskOokTxStartBeacon ((parseBytes (a 1)).take 255) ((parseInt (a 2)) % 4294967296).toNat)
  | "fsk_ook_tx_stop_beacon" => some .fskOokTxStopBeacon
  | "fsk_ook_set_bitrate" => some (.fskOokSetBitrate (UInt32.ofNat (parseNat (a 1))))
  | "fsk_set_fdev" => some (.fskSetFdev (UInt32.ofNat (parseNat (a 1))))
  | "ook_rx_set_peak_mode" => some (.ookRxSetPeakMode (parseEnum (a 1)) (parseU8 (a 2)) (parseEnum (a 3)))
  | "ook_rx_set_fixed_mode" => some (.ookRxSetFixedMode (parseU8 (a 1)))
  | "ook_rx_set_avg_mode" => some (.ookRxSetAvgMode (parseEnum (a 1)) (parseEnum (a 2)))
  | "fsk_ook_rx_set_collision_restart" => some (.fskOokRxSetCollisionRestart (parseBool (a 1)) (parseU8 (a 2)))
  | "fsk_ook_rx_set_afc_auto" => some (.fskOokRxSetAfcAuto (parseBool (a 1)))
  | "fsk_ook_rx_set_afc_bandwidth" => some (.fskOokRxSetAfcBandwidth (UInt32.ofNat (parseNat (a 1))))
  | "fsk_ook_rx_set_bandwidth" => some (.fskOokRxSetBandwidth (UInt32.ofNat (parseNat (a 1))))
  | "fsk_ook_rx_set_trigger" => some (.fskOokRxSetTrigger (parseEnum (a 1)))
  | "fsk_ook_set_syncword" => some (.fskOokSetSyncword ((parseBytes (a 1)).take 64))
  | "fsk_ook_rx_set_rssi_config" =>
    -- the argument is converted to int8_t
    let o := (parseInt (a 2)) % 256
    some (.fskOokRxSetRssiConfig (parseEnum (a 1)) (if o ≥ 128 then o - 256 else o))
  | "fsk_ook_set_packet_encoding" => some (.fskOokSetPacketEncoding (parseEnum (a 1)))
  | "fsk_ook_set_crc" => some (.fskOokSetCrc (parseEnum (a 1)))
  | "fsk_ook_set_packet_format" => some (.fskOokSetPacketFormat (parseEnum (a 1)) (UInt16.ofNat ((parseInt (a 2)) % 65536).toNat))
  | "fsk_ook_set_address_filtering" => some (.fskOokSetAddressFiltering (parseEnum (a 1)) (parseU8 (a 2)) (parseU8 (a 3)))
  | "fsk_set_data_shaping" => some (.fskSetDataShaping (parseEnum (a 1)) (parseEnum (a 2)))
  | "ook_set_data_shaping" => some (.ookSetDataShaping (parseEnum (a 1)) (parseEnum (a 2)))
  | "fsk_ook_set_preamble_type" => some (.fskOokSetPreambleType (parseEnum (a 1)))
  | "fsk_ook_rx_set_preamble_detector" => some (.fskOokRxSetPreambleDetector (parseBool (a 1)) (parseU8 (a 2)) (parseU8 (a 3)))
  | "fsk_ook_rx_calibrate" => some .fskOokRxCalibrate
  | "fsk_ook_get_raw_temperature" => some .fskOokGetRawTemperature
  | "fsk_ook_set_temp_monitor" => some (.fskOokSetTempMonitor (parseBool (a 1)))
  | "read_register" => some (.readRegister (parseNat (a 1)))
  | "write_register" => some (.writeRegister (parseNat (a 1)) (parseU8 (a 2)))
  | "rx_set_callback" => some (.rxSetCallback (parseBool (a 1)))
  | "tx_set_callback" => some (.txSetCallback (parseBool (a 1)))
  | "lora_cad_set_callback" => some (.loraCadSetCallback (parseBool (a 1)))
  | "irq" => some .irq
  | _ => none

def parseEnv (t : List String) : Option Env :=
  let a := arg t
  match t.head? with
  | some "rxbyte" => some (.rxByte (parseU8 (a 1)))
  | some "rxend" => some (.rxEnd (parseBool (a 1)))
  | some "flag1" => some (.flag1 (parseU8 (a 1)))
  | some "flag2" => some (.flag2 (parseU8 (a 1)))
  | some "txshift" => some .txShift
  | some "txsent" => some .txSent
  | some "lorarx" => some (.loraRx (parseU8 (a 1)) (parseBool (a 2)) (parseBytes (a 3)))
  | some "loraflags" => some (.loraFlags (parseU8 (a 1)))
  | some "chip" => some (.chip ((a 1).toList.headD 'f') (parseNat (a 2)) (parseU8 (a 3)))
  | some "buf" => some (.buf (parseU8 (a 1)) (parseU8 (a 2)))
  | some "chiprand" => some (.chipRand (UInt32.ofNat (parseNat (a 1))))
  | _ => none

def showOut : Out → String
  | .none => ""
  | .nat n => s!",{n}"
  | .int i => s!",{i}"
  | .bits u => "," ++ hex8 u
  | .byte b => "," ++ toHex b.toNat

def showRes (name : String) (r : Except Code Out) : String :=
  match r with
  | .ok o => "0" ++ showOut o
  | .error c => toHex c ++ (if name = "rx_get_packet_rssi" ∧ c = Gen.SX127X_ERR_NOT_FOUND then ",0" else "")

def showBus : BusEv → String
  | .r reg n (.ok v) => s!"R{toHex reg}/{n}={toHex v.toNat};"
  | .r reg n (.error c) => s!"R{toHex reg}/{n}=!{toHex c};"
  | .rb reg n (.ok d) => s!"RB{toHex reg}/{n}={hexBytes d};"
  | .rb reg n (.error c) => s!"RB{toHex reg}/{n}=!{toHex c};"
  | .w reg d (.ok _) => s!"W{toHex reg}:{hexBytes d};"
  | .w reg d (.error c) => s!"W{toHex reg}:{hexBytes d}!{toHex c};"
  | .wb reg d (.ok _) => s!"WB{toHex reg}:{hexBytes d};"
  | .wb reg d (.error c) => s!"WB{toHex reg}:{hexBytes d}!{toHex c};"

def showCb (names : String × String × String) (c : CbRec) : String :=
  let (e, name) := match c.ev with
    | .rx d len => (s!"rx:{len}:{hexBytes d}", names.1)
    | .tx => ("tx", names.2.1)
    | .cad d => (s!"cad:{d}", names.2.2)
  let r := match c.reaction with
    | some res => "[" ++ name ++ "=" ++ showRes name res ++ "]"
    | none => ""
  e ++ r ++ ";"

def b2n (b : Bool) : Nat := if b then 1 else 0

def showHandle (cached : Bool) (h : Handle) (c : Cache) : String :=
  let base := s!" h=am:{toHex h.activeModem},om:{toHex h.opmod},ih:{b2n h.implicitHeader},cb:{b2n h.rxCb}{b2n h.txCb}{b2n h.cadCb},exp:{h.expected.toNat},rcv:{h.received.toNat},ra:{b2n h.rssiAvail},rs:{h.rssi},fmt:{toHex h.format},crc:{toHex h.crcType},fq:{b2n h.freqs.isSome},fl:{h.freqLen.toNat},cf:{h.curFreq.toNat},pk:{hex8 (fnv h.packet)}"
  if cached then
    let vals := (List.range c.sync.length).map fun i => if c.sync.rd i == 1 then c.vals.rd i else 0
    base ++ s!" c={hex8 (fnv c.sync)}:{hex8 (fnv vals)}"
  else base

structure St where
  sys : Sys := {}
  cached : Bool := true
  cap : Nat := Gen.CONFIG_SX127X_MAX_PACKET_SIZE
  onRx : Option (List String) := none
  onTx : Option (List String) := none
  onCad : Option (List String) := none
  dead : Bool := false      -- undefined behaviour reached: the rest of the script is not executed

def St.cfg (s : St) : SysCfg :=
  { cached := s.cached, cap := s.cap,
    onRx := s.onRx.bind parseApi, onTx := s.onTx.bind parseApi, onCad := s.onCad.bind parseApi }

def St.names (s : St) : String × String × String :=
  (((s.onRx.getD []).headD ""), ((s.onTx.getD []).headD ""), ((s.onCad.getD []).headD ""))

/-- split a script line into call tokens, scheduled events and faults -/
def splitLine (toks : List String) : List String × List (Nat × List String) × List (Nat × Code) :=
  let rec go (ts : List String) (call : List String) (evs : List (Nat × List String)) (faults : List (Nat × Code))
      (cur : Option (Nat × List String)) : List String × List (Nat × List String) × List (Nat × Code) :=
    let flush := match cur with | some e => evs ++ [(e.1, e.2)] | none => evs
    match ts with
    | [] => (call, flush, faults)
    | t :: rest =>
      if t.startsWith "@" then go rest call flush faults (some ((t.drop 1).toString.toNat?.getD 0, []))
      else if t.startsWith "!" then
        match (t.drop 1).toString.splitOn "=" with
        | [k, c] => go rest call evs (faults ++ [(k.toNat?.getD 0, (parseInt c).toNat)]) cur
        | _ => go rest call evs faults cur
      else match cur with
        | some e => go rest call evs faults (some (e.1, e.2 ++ [t]))
        | none => go rest (call ++ [t]) evs faults cur
  go toks [] [] [] none

def dumpChip (c : Chip) : String :=
  s!"chip s={hexBytes (c.shared.rds 0 128)} l={hexBytes (c.lora.rds 0x0d 0x33)} f={hexBytes (c.fsk.rds 0x0d 0x33)} buf={hexBytes (c.buf.rds 0 256)} fifo={hexBytes c.fifo} air={hexBytes c.air} uf={c.underflow} of={c.overflow}"

def stepLine (s : St) (line : String) : St × Option String :=
  let line := line.trimAscii.toString
  if line.isEmpty then (s, none) else
  if line.startsWith "# script" then ({ s with dead := false }, some line) else
  if s.dead then (s, none) else
  if line.startsWith "#" then (s, some line) else
  let toks := (line.splitOn " ").filter (· ≠ "")
  let (call, evs, faults) := splitLine toks
  match call with
  | [] => (s, none)
  | name :: rest =>
    if name = "reset" then
      ({ s with sys := {}, onRx := none, onTx := none, onCad := none }, some "reset")
    else if name = "env" then
      match parseEnv rest with
      | some e => ({ s with sys := (s.sys.step s.cfg (.env e)).1 }, some "env")
      | none => (s, some ("!model unknown env event " ++ rest.headD ""))
    else if name = "oncb" then
      let r : Option (List String) := if rest.length < 2 ∨ rest.getD 1 "" = "-" then none else some (rest.drop 1)
      let s := match rest.headD "" with
        | "rx" => { s with onRx := r }
        | "tx" => { s with onTx := r }
        | _ => { s with onCad := r }
      (s, some "oncb")
    else if name = "dump" then (s, some (dumpChip s.sys.world.chip))
    else if name = "rehome" then
      -- the application moves the handle to other storage: in the model a handle is a value, nothing changes
      match s.sys.handle with
      | none => (s, some "!model op before create: rehome")
      | some h => (s, some (s!"rehome rc=0 cb= spi=" ++ showHandle s.cached h s.sys.world.cache ++
          s!" uf={s.sys.world.chip.underflow} of={s.sys.world.chip.overflow}"))
    else if name = "bk" then
      -- C19, backend half: `bk <lin|esp> <rr|rb|wr|wb> <reg> <n> <fail> <garbage> <hex>`; for reads <hex> is
      -- what the chip shifts out after the address byte, for writes the caller's data (n = its length)
      let a := arg rest
      let reg := parseNat (a 2)
      let n := parseNat (a 3)
      let bytes := parseBytes (a 6)
      let w : Backend.Wire := { fail := parseInt (a 4), garbage := parseU8 (a 5), miso := bytes }
      let lin := a 0 = "lin"
      let o : Backend.Out := match a 1 with
        | "rr" => if lin then Backend.linReadRegisters reg n w else Backend.espReadRegisters reg n w
        | "rb" => if lin then Backend.linReadBuffer reg n w else Backend.espReadBuffer reg n w
        | "wr" => if lin then Backend.linWriteRegister reg bytes { w with miso := [] } else Backend.espWriteRegister reg bytes { w with miso := [] }
        | _ => if lin then Backend.linWriteBuffer reg bytes { w with miso := [] } else Backend.espWriteBuffer reg bytes { w with miso := [] }
      let word := match o.word with | some v => hex8 (UInt32.ofNat v) | none => "-"
      let buf := match o.buf with | some (b :: bs) => hexBytes (b :: bs) | _ => "-"
      (s, some s!"bk {a 0} {a 1} rc={o.rc} frames={String.intercalate "|" (o.frames.map hexBytes)} word={word} buf={buf}")
    else if name = "parse" ∨ name = "tool" then
      -- C20: the argument of debug_registers, given as the hex of its bytes (`-` = empty)
      let hx := rest.headD "-"
      let bytes : List Nat := if hx = "-" then [] else
        (List.range (hx.length / 2)).map fun i => parseHexNat ((hx.drop (2 * i)).take 2).toString
      let arg : List Char := bytes.map Char.ofNat
      if name = "parse" then
        match Tool.parse arg with
        | .invalid => (s, some "parse rc=-1")
        | .oob => (s, some "parse OOB")
        | .ok bs => (s, some s!"parse rc=0 n={bs.length} bytes={hexBytes bs}")
      else
        match Tool.toolMain arg with
        | .failure => (s, some "tool rc=1")
        | .ub => (s, some "tool OOB")
        | .lora _ => (s, some "tool rc=0")
        | .fsk _ => (s, some "tool rc=0")
    else
      match parseApi call with
      | none => (s, some s!"!model unknown op {name}")
      | some api =>
        let sched := evs.filterMap fun (k, t) => (parseEnv t).map fun e => (k, e)
        let (sys', obs) := s.sys.step s.cfg (.api api sched faults)
        match obs with
        | .skipped => (s, some s!"!model op before create: {name}")
        | .env => (s, none)
        | .ub u => ({ s with sys := sys', dead := true }, some s!"{name} UB {u.name}")
        | .ret r cbs bus =>
          let names := s.names
          let out := s!"{name} rc={showRes name r} cb={String.join (cbs.map (showCb names))} spi={String.join (bus.map showBus)}" ++
            showHandle s.cached (sys'.handle.getD {}) sys'.world.cache ++ s!" uf={sys'.world.chip.underflow} of={sys'.world.chip.overflow}"
          ({ s with sys := sys' }, some out)

partial def loop (h : IO.FS.Stream) (out : IO.FS.Stream) (s : St) : IO Unit := do
  let line ← h.getLine
  if line.isEmpty then return ()
  let (s', o) := stepLine s line
  match o with
  | some t => out.putStrLn t
  | none => pure ()
  loop h out s'

def main (args : List String) : IO Unit := do
  let cached := !(args.contains "--nocache")
  let cap := match args.dropWhile (· ≠ "--cap") with
    | _ :: v :: _ => v.toNat?.getD Gen.CONFIG_SX127X_MAX_PACKET_SIZE
    | _ => Gen.CONFIG_SX127X_MAX_PACKET_SIZE
  let stdin ← IO.getStdin
  let stdout ← IO.getStdout
  loop stdin stdout { cached := cached, cap := cap }
