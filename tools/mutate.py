#!/usr/bin/env python3
"""Mutation campaign (a tool for finding detection gaps, not part of any check).

  mutate.py <n> [seed]

Works on copies: /var/tmp/mut/repo (git clone of /repo) and /var/tmp/mut/verif (copy of /verif
with its own lean build), so that it can run next to other work.  Draws <n> single-edit mutants
of src/sx127x.c (relational/logical/arithmetic operator swaps, literal +-1, statement deletion),
keeps those that compile and pass the unit suite, runs the 20 quick checks on each (stopping at
the first that reports a violation) and appends one JSON line per mutant to
/var/tmp/mut/results.jsonl.  Survivors are the lines with "detected_by": null."""
import json, os, random, re, shutil, subprocess, sys, time

N = int(sys.argv[1]) if len(sys.argv) > 1 else 50
SEED = int(sys.argv[2]) if len(sys.argv) > 2 else 1
MODE = sys.argv[3] if len(sys.argv) > 3 else 'code'     # 'code': src/sx127x.c; 'consts': #define / enumerator values in the three files
BASE = '/var/tmp/mut'
REPO = BASE + '/repo'
VERIF = BASE + '/verif'
OUT = BASE + '/results.jsonl'

def sh(cmd, **kw):
    return subprocess.run(cmd, shell=isinstance(cmd, str), capture_output=True, text=True, **kw)

def setup():
    os.makedirs(BASE, exist_ok=True)
    if not os.path.exists(REPO):
        sh(['git', 'clone', '-q', '/repo', REPO])
    sh(['git', '-C', REPO, 'fetch', '-q', '/repo', 'HEAD'])
    sh(['git', '-C', REPO, 'reset', '-q', '--hard', 'FETCH_HEAD'])
    if os.path.exists(VERIF):
        shutil.rmtree(VERIF)
    sh(['rsync', '-a', '--exclude', 'replay', '--exclude', '.git', '/verif/', VERIF + '/'])

OPS = [
    (r'(?<![<>=!-])<=(?!=)', '<'), (r'(?<![<>=!-])>=(?!=)', '>'),
    (r'(?<![<-])<(?![<=])', '<='), (r'(?<![>-])>(?![>=])', '>='),
    (r'==', '!='), (r'!=', '=='), (r'&&', '||'), (r'\|\|', '&&'),
    (r' \+ ', ' - '), (r' - ', ' + '), (r' & ', ' | '), (r' \| ', ' & '),
]

def candidates(lines):
    cands = []
    in_comment = False
    for i, l in enumerate(lines):
        s = l.strip()
        if in_comment:
            if '*/' in s:
                in_comment = False
            continue
        if s.startswith('/*'):
            if '*/' not in s:
                in_comment = True
            continue
        if not s or s.startswith('//') or s.startswith('#include') or s.startswith('*'):
            continue
        code = l.split('//')[0]
        if s.startswith('#') and not s.startswith('#define'):
            continue
        for pat, rep in OPS:
            for m in re.finditer(pat, code):
                if "'" in code or '"' in code:
                    continue
                cands.append((i, 'op %s->%s@%d' % (m.group(0), rep, m.start()), code[:m.start()] + rep + code[m.end():] + l[len(code):]))
        for m in re.finditer(r'(?<![\w.x])(\d+)(?![\w.x])', code):
            v = int(m.group(1))
            if code.lstrip().startswith('#define') and m.start() < code.index(code.split()[1]) + len(code.split()[1]):
                continue
            for d in (1, -1):
                if v + d < 0:
                    continue
                cands.append((i, 'lit %d->%d@%d' % (v, v + d, m.start()), code[:m.start()] + str(v + d) + code[m.end():] + l[len(code):]))
        if re.match(r'^\s*(device->[\w.\[\]>-]+\s*(=|\+=|-=|\|=|&=)[^=].*;|[\w>.-]+\+\+;|sx127x_\w+\(device\);|return;)\s*$', code):
            cands.append((i, 'del', '\n' if not l.endswith('\n') else l[:len(l) - len(l.lstrip())] + ';\n'))
    return cands

def unit_tests_pass():
    d = BASE + '/utest'
    shutil.rmtree(d, ignore_errors=True)
    r = sh('cmake -S %s/test -B %s -G Ninja >/dev/null 2>&1 && cmake --build %s 2>&1 | tail -3' % (REPO, d, d))
    if not os.path.exists(d + '/test_sx127x'):
        return 'nobuild'
    try:
        r = sh([d + '/test_sx127x'], timeout=120)
    except subprocess.TimeoutExpired:
        return 'timeout'
    return 'pass' if '10 Tests 0 Failures' in r.stdout else 'fail'

def const_candidates(lines):
    """one-bit / +-1 changes of the value of a #define or of an enumerator"""
    cands = []
    for i, l in enumerate(lines):
        code = l.split('//')[0]
        m = re.match(r'^(\s*#define\s+\w+\s+|\s*\w+\s*=\s*)(0b[01]+|0x[0-9a-fA-F]+|\d+)(\s*,?\s*)$', code.rstrip('\n'))
        if not m:
            continue
        lit = m.group(2)
        v = int(lit, 0)
        alts = set()
        for b in range(8):
            alts.add(v ^ (1 << b))
        alts.add(v + 1)
        if v > 0:
            alts.add(v - 1)
        for a in sorted(alts):
            if a < 0 or a == v:
                continue
            if lit.startswith('0b'):
                new = '0b' + format(a, '0%db' % (len(lit) - 2))
            elif lit.startswith('0x'):
                new = '0x%02x' % a
            else:
                new = str(a)
            cands.append((i, 'const %s->%s' % (lit, new), m.group(1) + new + m.group(3) + l[len(code.rstrip('\n')):]))
    return cands

def main():
    setup()
    if MODE == 'consts':
        return main_consts()
    src = REPO + '/src/sx127x.c'
    orig = open(src).read()
    lines = orig.splitlines(keepends=True)
    cands = candidates(lines)
    rnd = random.Random(SEED)
    rnd.shuffle(cands)
    props = [c['property_id'] for c in json.load(open(VERIF + '/MANIFEST.json'))['checks']]
    # cheap, broad checks first
    order = ['C19', 'C01', 'C10', 'C09', 'C08', 'C03', 'C04', 'C05', 'C06', 'C07', 'C11', 'C13', 'C15', 'C16', 'C17', 'C12', 'C14', 'C02', 'C18', 'C20']
    order = [p for p in order if p in props] + [p for p in props if p not in order]
    done = 0
    env = dict(os.environ, SX_REPO=REPO)
    for (i, what, newline) in cands:
        if done >= N:
            break
        ml = list(lines)
        ml[i] = newline
        open(src, 'w').write(''.join(ml))
        t0 = time.time()
        ut = unit_tests_pass()
        rec = {'line': i + 1, 'what': what, 'old': lines[i].strip(), 'new': newline.strip(), 'unit': ut, 'detected_by': None}
        if ut == 'pass':
            done += 1
            for p in order:
                try:
                    r = sh(['./check.py', p, '--tier', 'quick'], cwd=VERIF, env=env, timeout=1800)
                except subprocess.TimeoutExpired:
                    rec['detected_by'] = p
                    rec['how'] = 'timeout'
                    break
                if r.returncode != 0:
                    rec['detected_by'] = p
                    v = [l for l in r.stdout.splitlines() if l.startswith('VIOLATION') or l.startswith('finding:')]
                    rec['how'] = ' | '.join(v[:2])[:300]
                    break
        rec['secs'] = round(time.time() - t0, 1)
        open(OUT, 'a').write(json.dumps(rec) + '\n')
        open(src, 'w').write(orig)
    print('done: %d mutants that pass the unit suite' % done)

def main_consts():
    files = [REPO + '/src/sx127x.c', REPO + '/include/sx127x.h', REPO + '/include/sx127x_registers.h']
    cands = []
    origs = {}
    for f in files:
        origs[f] = open(f).read()
        for c in const_candidates(origs[f].splitlines(keepends=True)):
            cands.append((f,) + c)
    rnd = random.Random(SEED)
    rnd.shuffle(cands)
    props = [c['property_id'] for c in json.load(open(VERIF + '/MANIFEST.json'))['checks']]
    order = ['C19', 'C09', 'C15', 'C01', 'C10', 'C08', 'C03', 'C04', 'C05', 'C06', 'C07', 'C11', 'C13', 'C16', 'C17', 'C12', 'C14', 'C02', 'C18', 'C20']
    order = [p for p in order if p in props]
    env = dict(os.environ, SX_REPO=REPO)
    done = 0
    for (f, i, what, newline) in cands:
        if done >= N:
            break
        lines = origs[f].splitlines(keepends=True)
        old = lines[i]
        lines[i] = newline
        open(f, 'w').write(''.join(lines))
        t0 = time.time()
        ut = unit_tests_pass()
        rec = {'file': os.path.basename(f), 'line': i + 1, 'what': what, 'old': old.strip(), 'new': newline.strip(), 'unit': ut, 'detected_by': None}
        if ut == 'pass':
            done += 1
            for p in order:
                try:
                    r = sh(['./check.py', p, '--tier', 'quick'], cwd=VERIF, env=env, timeout=1800)
                except subprocess.TimeoutExpired:
                    rec['detected_by'] = p; rec['how'] = 'timeout'; break
                if r.returncode != 0:
                    rec['detected_by'] = p
                    v = [l for l in r.stdout.splitlines() if l.startswith('VIOLATION') or l.startswith('finding:')]
                    rec['how'] = ' | '.join(v[:2])[:300]
                    break
        rec['secs'] = round(time.time() - t0, 1)
        open(OUT, 'a').write(json.dumps(rec) + '\n')
        open(f, 'w').write(origs[f])
    print('done: %d constant mutants that pass the unit suite' % done)

if __name__ == '__main__':
    main()
