#!/bin/bash
# coverage.sh [tier] : which lines and branches of src/sx127x.c do the scripts of all checks
# never execute?  (A change hidden in such a place cannot be seen by the correspondence.)
# Builds the harness with --coverage into a scratch directory, runs every check, prints gcov's
# summary and the unexecuted lines.  Not part of any check; a tool for improving the generators.
TIER=${1:-quick}
D=$(mktemp -d /var/tmp/sxcov.XXXXXX)
trap 'rm -rf "$D"' EXIT
cd /verif
for p in $(python3 -c "import json;print(' '.join(c['property_id'] for c in json.load(open('MANIFEST.json'))['checks']))"); do
  SXH_COVERAGE=$D ./check.py $p --tier $TIER 2>&1 | tail -1
done
cd $D
for g in sxh_cache-sx127x.gcda; do
  gcov -b -c -o . $g > gcov.txt 2>&1
done
grep -A4 "File '/repo/src/sx127x.c'" gcov.txt
echo "--- lines never executed (cached build):"
grep -n "#####" sx127x.c.gcov | head -120
echo "--- branches never taken (cached build):"
awk '/^ +[0-9#=-]+: +[0-9]+:/{line=$0} /^branch +[0-9]+ never executed|^branch +[0-9]+ taken 0/{print line " || " $0}' sx127x.c.gcov | head -150
